#!/bin/bash
# usage: tools/take_seeded.sh <ID> [suffix]  -- copy a sub-agent's deliverables from /tmp/mut-<ID> into seeded/<ID>[-suffix]
set -e
cd "$(dirname "$0")/.."
id=$1; sfx=${2:+-$2}
src=/tmp/mut-$id${2:+-$2}
dst=seeded/$id$sfx
mkdir -p $dst
cp $src/patch.diff $src/demo.py $src/meta.json $dst/
echo "copied to $dst"
