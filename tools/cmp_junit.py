#!/usr/bin/env python3
"""Compare a junit xml with the stable_pass list of /root/.vp/BASELINE.json: tools/cmp_junit.py JUNIT.xml"""
import json, sys, ast
import xml.etree.ElementTree as ET
b = json.load(open('/root/.vp/BASELINE.json'))
stable = b['stable_pass']
if isinstance(stable, str):
    stable = ast.literal_eval(stable)
stable = set(stable)
res = {}
for tc in ET.parse(sys.argv[1]).getroot().iter('testcase'):
    name = tc.get('classname') + '::' + tc.get('name')
    bad = any(ch.tag in ('failure', 'error') for ch in tc)
    skipped = any(ch.tag == 'skipped' for ch in tc)
    res[name] = 'fail' if bad else ('skip' if skipped else 'pass')
missing = sorted(n for n in stable if n not in res)
notpass = sorted(n for n in stable if res.get(n) not in ('pass', None))
print(f"stable={len(stable)} seen={len(res)} stable_not_passing={len(notpass)} stable_missing={len(missing)}")
for n in notpass[:60]:
    print('  NOTPASS', res[n], n)
for n in missing[:20]:
    print('  MISSING', n)
sys.exit(1 if notpass or missing else 0)
