#!/usr/bin/env python3
"""Commit selected hunks of the working-tree diff of one file of /repo:
tools/split_commit.py FILE HUNK_INDEXES(comma, 0-based) MESSAGE"""
import subprocess, sys, re
f, idx, msg = sys.argv[1], [int(x) for x in sys.argv[2].split(',')], sys.argv[3]
d = subprocess.run(['git', '-C', '/repo', 'diff', '-U3', '--', f], capture_output=True, text=True, check=True).stdout
head, *hunks = re.split(r'(?m)^(?=@@ )', d)
patch = head + ''.join(hunks[i] for i in idx)
subprocess.run(['git', '-C', '/repo', 'apply', '--cached', '--recount', '-'], input=patch, text=True, check=True)
subprocess.run(['git', '-C', '/repo', 'commit', '-q', '-m', msg], check=True)
print(subprocess.run(['git', '-C', '/repo', 'log', '--oneline', '-1'], capture_output=True, text=True).stdout)
