#!/venv/bin/python
"""Debug helper: run the ops of a worldsim replay file (or plan) on one Sim and print full tracebacks.
usage: tools/tb.py REPLAY.json [variant]"""
import json, os, sys, traceback
HERE = os.path.dirname(os.path.dirname(os.path.abspath(__file__)))
sys.path.insert(0, HERE)
os.environ.setdefault('OMP_NUM_THREADS', '1')
from dst.core import util
util.prepare_env()
from dst.core.util import Log, reset_process_state
from dst.world.sim import Sim
doc = json.load(open(sys.argv[1]))
plan = doc.get('plan', doc)
variant = sys.argv[2] if len(sys.argv) > 2 else None
reset_process_state(plan.get('run_seed', 0))
sim = Sim(plan, Log(True), set(), variant=variant)
for op in plan['ops']:
    print('OP', op)
    try:
        getattr(sim, 'op_' + op['op'])(op)
        if op['op'] == 'run_model':
            sim.clean = True
    except Exception:
        traceback.print_exc()
        break
