#!/bin/bash
# usage: tools/confirm_seeded.sh <seeded dir name> -- confirm a seeded change in a scratch worktree: the demonstration passes
# without and fails with the patch, and the pinned suite's stable tests still pass with it.  Removes the worktree.
cd "$(dirname "$0")/.."
d=seeded/$1
base=/var/tmp/vwt/conf-$1; wt=$base/repo
rm -rf $base; mkdir -p $base
git -C /repo worktree add --detach $wt HEAD >/dev/null 2>&1 || { echo "worktree failed"; exit 2; }
run() { (cd $wt && PYTHONPATH=$wt OPENMDAO_REPORTS=0 timeout 900 /venv/bin/python $OLDPWD/$d/demo.py >$base/demo_$1.log 2>&1; echo $?); }
cd /verif
r0=$(cd $wt && PYTHONPATH=$wt OPENMDAO_REPORTS=0 timeout 900 /venv/bin/python /verif/$d/demo.py >$base/demo_clean.log 2>&1; echo $?)
git -C $wt apply /verif/$d/patch.diff || { echo "$1: PATCH DOES NOT APPLY"; git -C /repo worktree remove --force $wt; exit 2; }
r1=$(cd $wt && PYTHONPATH=$wt OPENMDAO_REPORTS=0 timeout 900 /venv/bin/python /verif/$d/demo.py >$base/demo_patched.log 2>&1; echo $?)
imp=$(cd $wt && PYTHONPATH=$wt /venv/bin/python -c "import openmdao.api, openmdao; print(openmdao.__file__)" 2>&1 | tail -1)
(cd $wt && PYTHONPATH=$wt OPENMDAO_REPORTS=0 timeout 3000 /venv/bin/python -m pytest -q -p no:cacheprovider --timeout=900 --continue-on-collection-errors -n ${NPROC:-10} --junitxml=$base/junit.xml >$base/pytest.log 2>&1)
cmp=$(tools/cmp_junit.py $base/junit.xml | head -8)
echo "$1: demo_clean_rc=$r0 demo_patched_rc=$r1 import=$imp"
echo "$cmp"
tail -3 $base/demo_patched.log | cut -c1-300
git -C /repo worktree remove --force $wt; rm -rf $base; git -C /repo worktree prune
