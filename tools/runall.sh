#!/bin/bash
# usage: tools/runall.sh <VERIF_SEED> [tier] -- run every claimed check once and print one line per check
cd "$(dirname "$0")/.."
export VERIF_SEED=${1:-0}
tier=${2:-quick}
for id in $(jq -r '.checks[].property_id' MANIFEST.json); do
  out=$(./check $id --tier $tier --no-evidence 2>&1); rc=$?
  echo "$id rc=$rc $(echo "$out" | grep -E "^$id tier" | cut -c1-160)"
  echo "$out" | grep -E "^(VIOLATION|HARNESS-ERROR|KNOWN-FINDING|violation detail)" | cut -c1-400
done
