#!/venv/bin/python
"""Regenerate MANIFEST.json from the table below (keeps it valid and current)."""
import json
import os

HERE = os.path.dirname(os.path.dirname(os.path.abspath(__file__)))

NA = {
 'C03': "pure function: colouring is combinatorics of a boolean sparsity pattern and a matrix; no schedule, fault, clock or I/O enters it (coloured totals appear only as a knob of C01/C12 runs)",
 'C05': "pure function of (index spec, shape); nothing to schedule or fault",
 'C06': "pure function of unit strings and values; no clause depends on call order, time, I/O or faults",
 'C13': "what check_partials/check_totals report is a pure function of one model state (their side-effect freedom is covered under C31)",
 'C14': "ExecComp evaluation/partials: pure function of expression and inputs",
 'C15': "table interpolation values: pure function of grid, table and query point",
 'C16': "interpolation derivatives: pure function",
 'C20': "driver scaling is a set of affine formulas on current values; pure",
 'C22': "constraint violation is a pure function of current constraint values and bound metadata",
 'C25': "KS aggregation: pure function",
 'C26': "stock math components: pure functions of options and inputs",
 'C28': "surrogate train/predict/linearize: pure functions of the training set",
 'C29': "file wrap: formatting/parsing of a value; whole-file read/write with no partial-I/O contract in the statement",
 'C30': "cs_safe / smooth helpers: pure functions",
 'C34': "function/jax components: pure functions of the wrapped function and inputs",
}

# pid -> (engine, level, technique, level text, level note, design ref)
CLAIMED = {}


def claim(pid, engine, level, technique, text, note, ref):
    CLAIMED[pid] = (engine, level, technique, text, note, ref)


def load_claims():
    path = os.path.join(HERE, 'tools', 'claims.json')
    with open(path) as f:
        for c in json.load(f):
            claim(**c)


def main():
    load_claims()
    props = [json.loads(l) for l in open(os.path.join(HERE, 'properties.jsonl'))]
    checks, na = [], []
    for p in props:
        pid = p['id']
        if pid in CLAIMED:
            engine, level, technique, text, note, ref = CLAIMED[pid]
            checks.append({
                'property_id': pid,
                'quick_cmd': f'./check {pid} --tier quick',
                'thorough_cmd': f'./check {pid} --tier thorough',
                'evidence_file': f'/verif/evidence/{pid}.json',
                'replay_cmd_template': f'./check {pid} --replay {{path}}',
                'engine': engine,
                'level_claimed': {'category': level, 'text': text, 'design_ref': ref},
                'level_note': note,
                'technique': technique,
            })
        elif pid in NA:
            na.append({'property_id': pid, 'reason': 'not applicable to deterministic simulation: ' + NA[pid]})
        else:
            na.append({'property_id': pid, 'reason': 'designed in DESIGN.md but the check is not built/quiet yet, so it is not claimed'})
    man = {
        'version': 1,
        'setup_cmd': 'make -C dst/simdisk',
        'hooks': {
            'guard': 'OPENMDAO_VERIF',
            'enable': 'no hook commits exist: every seam is reached from outside the repository (stub components, CaseRecorder subclass, module attributes, LD_PRELOAD shim); the guard name is reserved',
            'baseline_off_cmd': 'cd /repo && env -u OPENMDAO_VERIF /venv/bin/python -m pytest -ra -q -p no:cacheprovider --timeout=900 --continue-on-collection-errors',
            'source_commits': [],
            'add_only': True,
        },
        'engines': [
            {'name': 'statesim', 'path': 'dst/state', 'serves_properties': ['C27', 'C33'], 'kind_free_text': 'seeded op/fault histories on stateful objects vs reference model'},
            {'name': 'solversim', 'path': 'dst/solver', 'serves_properties': ['C09', 'C10'], 'kind_free_text': 'scripted residual-norm adversary and Newton-step adversary around real solver loops'},
            {'name': 'simdisk+recsim', 'path': 'dst/rec, dst/simdisk', 'serves_properties': ['C17', 'C18', 'C19'], 'kind_free_text': 'LD_PRELOAD I/O trace shim, crash-image enumeration, shadow recorder'},
            {'name': 'drvsim', 'path': 'dst/drv', 'serves_properties': ['C21', 'C23'], 'kind_free_text': 'real optimizer / DOE driver calling back into failing stub models'},
            {'name': 'worldsim', 'path': 'dst/world', 'serves_properties': ['C01', 'C02', 'C04', 'C07', 'C08', 'C11', 'C12', 'C24', 'C31', 'C32'], 'kind_free_text': 'generated Problems under API-call/fault histories vs exact reference, twins, interleaving'},
        ],
        'checks': checks,
        'not_applicable': na,
        'notes': 'Technique: deterministic simulation with fault injection (seeded plans, fork pool, ddmin over plans, replay files). See DESIGN.md.',
    }
    with open(os.path.join(HERE, 'MANIFEST.json'), 'w') as f:
        json.dump(man, f, indent=1)
    print(f"claimed {len(checks)} not_applicable {len(na)}")


if __name__ == '__main__':
    main()
