#!/usr/bin/env python3
"""Print a compact summary of worldsim replay files: tools/showrp.py FILE..."""
import json, sys
for f in sys.argv[1:]:
    d = json.load(open(f))
    p = d['plan']
    print('=====', f.split('/')[-1][:70], 'shrink_exec', d.get('shrink_executions'))
    print(' knobs', p['knobs'])
    print(' ops', p['ops'])
    w = p['world']
    for c in w['comps']:
        print('  comp', c['name'], c['kind'], 'grp=' + c['group'], 'approx=', c.get('approx'), 'quad=', c.get('quad'), 'mf=', c.get('mf'),
              'fmt=', c.get('fmt'))
        for i in c['ins']:
            print('     in ', i['name'], i['shape'], i['units'], 'src=', i.get('src'), 'idx=', i.get('idx'), 'flat=', i.get('flat'), i.get('via'))
        for o in c['outs']:
            print('     out', o['name'], o['shape'], o['units'], {k: o[k] for k in ('ref', 'ref0', 'res_ref') if k in o})
    print(' solvers', w['solvers'], 'cycle', w['cycle'], 'groups', w['groups'])
    print(' dvs', w['dvs'], 'resps', w['resps'])
    for v in d.get('violation', [])[:1]:
        print(' V', v['msg'][:700])
