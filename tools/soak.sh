#!/bin/bash
# usage: tools/soak.sh "<ids>" "<seeds>" [tier] -- quiet-soak checks over VERIF_SEED values; replays under /var/tmp/soak
cd "$(dirname "$0")/.."
tier=${3:-quick}
mkdir -p /var/tmp/soak
for s in $2; do for id in $1; do
  out=$(VERIF_SEED=$s ./check $id --tier $tier --no-evidence --no-selftest --replay-dir /var/tmp/soak/$id-s$s 2>&1); rc=$?
  echo "$id seed=$s rc=$rc $(echo "$out" | grep -E "^$id tier" | sed -E 's/faults=\{[^}]*\}//' | cut -c1-150)"
  echo "$out" | grep -E "^(VIOLATION|HARNESS-ERROR|violation detail)" | cut -c1-400
done; done
