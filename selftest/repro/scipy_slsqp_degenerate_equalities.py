import numpy as np
from scipy.optimize import minimize
t=np.array([1.0,0.5,0.5]); C=np.array([[2.0,-1.5,-2.0],[2.0,-1.0,-2.0]]); d=np.array([2.0,-0.5])
f=lambda x: 0.5*np.sum((x-t)**2); g=lambda x: x-t
cons=[{'type':'eq','fun':(lambda x,j=j: C[j]@x+d[j]+0.25),'jac':(lambda x,j=j: C[j])} for j in range(2)]
r=minimize(f, np.array([0.5,0.5,1.0]), jac=g, method='SLSQP', bounds=[(-5,5)]*3, constraints=cons, tol=1e-10, options={'maxiter':400})
print(r.x, r.success, r.status, r.message, r.nit, f(r.x), 'optimum [2.0625, 5, -0.5625] f=11.2539')
