import numpy as np
from scipy.optimize import minimize, NonlinearConstraint, LinearConstraint, Bounds, BFGS
f = lambda x: 0.5*(1.5*(x[0]+0.5))**2
g = lambda x: np.array([2.25*(x[0]+0.5)])
# g0[0] = x+1 <= 1 scaled by ref0=-1, ref=9: (v - ref0)/(ref-ref0) = (x+2)/10 <= 0.2
nc = NonlinearConstraint(lambda x: np.array([(x[0]+2)/10]), -np.inf, 0.2, jac=lambda x: np.array([[0.1]]))
lc = LinearConstraint(np.array([[-0.5]]), -2.0+0.5, 0.0+0.5, keep_feasible=True)
for x0 in (-0.99996443, -0.9, 0.0):
    r = minimize(f, np.array([x0]), method='trust-constr', jac=g, hess=BFGS(), bounds=Bounds([-5],[5]), constraints=[nc, lc], tol=1e-10, options={'maxiter':400})
    print(x0, r.x, r.success, r.status, r.message, r.nit, r.optimality)
