import numpy as np, openmdao.api as om
p = om.Problem(); m = p.model
m.add_subsystem('ivc', om.IndepVarComp('x', 1.0))
m.add_subsystem('a', om.ExecComp('y = 0.9*z + x + 1e7', z=1.0))     # large offset: the first Newton right-hand side is ~1e7
m.add_subsystem('b', om.ExecComp('z = 0.9*y'))
m.connect('ivc.x', 'a.x'); m.connect('a.y', 'b.y'); m.connect('b.z', 'a.z')
m.nonlinear_solver = om.NewtonSolver(solve_subsystems=False, iprint=-1, rtol=1e-8)
m.linear_solver = om.LinearBlockGS(rtol=1e-10, atol=1e-12, maxiter=500, iprint=-1)
p.setup(mode='rev'); p.run_model()
jtw = p.compute_jacvec_product(['b.z'], ['ivc.x'], 'rev', {'b.z': np.ones(1)})['ivc.x'][0]
J = p.compute_totals(of=['b.z'], wrt=['ivc.x'])['b.z', 'ivc.x'][0, 0]
print('compute_totals', J, 'compute_jacvec_product', jtw, 'exact', 0.9 / (1 - 0.81), 'rel diff', abs(jtw - J) / abs(J))
