#!/venv/bin/python
"""Cheap regression of the harness itself: every pinned history that was minimised from a caught change
(`pinned/<pid>-revert-<commit>.json`, `pinned/<pid>-seeded-<name>.json`) is replayed against a scratch
worktree of /repo with that change applied again and must still raise a violation (and it is quiet on the
unchanged tree, which every batch of the check verifies).  A change of an oracle, a tolerance or a void rule
that blinds a check to a defect it used to catch shows up here within minutes.

usage: selftest/pinned_sensitivity.py [--only C01,C12] [--jobs N]
"""
import argparse
import glob
import json
import os
import re
import shutil
import subprocess
import sys
from concurrent.futures import ThreadPoolExecutor

HERE = os.path.dirname(os.path.dirname(os.path.abspath(__file__)))
REPO = '/repo'


def sh(*a, **k):
    return subprocess.run(a, capture_output=True, text=True, **k)


def one(path):
    base = os.path.basename(path)[:-5]
    pid, kind, name = re.match(r'(C\d+)-(revert|seeded)-(.+)$', base).groups()
    if kind == 'revert':
        diff, rev = sh('git', '-C', REPO, 'diff', name + '^', name).stdout, True
    else:
        diff, rev = open(os.path.join(HERE, 'seeded', name, 'patch.diff')).read(), False
    root = f"/var/tmp/vwt/pin-{os.getpid()}-{base}"
    wt = os.path.join(root, 'repo')
    os.makedirs(root, exist_ok=True)
    out = {'pinned': base, 'property': pid}
    try:
        r = sh('git', '-C', REPO, 'worktree', 'add', '--detach', wt, 'HEAD')
        if r.returncode:
            return dict(out, result='worktree-failed')
        r = subprocess.run(['git', '-C', wt, 'apply'] + (['-R'] if rev else []) + ['-'], input=diff, text=True,
                           capture_output=True)
        if r.returncode:
            return dict(out, result='patch-failed')
        env = dict(os.environ, VERIF_REPO=wt, VERIF_SCRATCH=os.path.join(root, 'scratch'))
        c = sh(os.path.join(HERE, 'check'), pid, '--replay', path, cwd=HERE, env=env, timeout=900)
        ok = c.returncode == 1 and 'VIOLATION' in c.stdout
        return dict(out, result='caught' if ok else f'MISSED(rc={c.returncode})',
                    detail=[ln[:200] for ln in c.stdout.splitlines() if ln.startswith('replay:')][:1])
    finally:
        sh('git', '-C', REPO, 'worktree', 'remove', '--force', wt)
        shutil.rmtree(root, ignore_errors=True)
        sh('git', '-C', REPO, 'worktree', 'prune')


def main():
    ap = argparse.ArgumentParser()
    ap.add_argument('--only')
    ap.add_argument('--jobs', type=int, default=4)
    a = ap.parse_args()
    only = set(a.only.split(',')) if a.only else None
    files = [f for f in sorted(glob.glob(os.path.join(HERE, 'pinned', 'C*-*.json')))
             if re.match(r'C\d+-(revert|seeded)-', os.path.basename(f))
             and (not only or os.path.basename(f).split('-')[0] in only)]
    res = []
    with ThreadPoolExecutor(a.jobs) as ex:
        for r in ex.map(one, files):
            print(json.dumps(r))
            sys.stdout.flush()
            res.append(r)
    with open(os.path.join(HERE, 'selftest', 'pinned_sensitivity_result.json'), 'w') as f:
        json.dump(res, f, indent=1)
    bad = [r for r in res if r['result'] != 'caught']
    print(f"{len(res) - len(bad)}/{len(res)} pinned histories still expose their change")
    return 1 if bad else 0


if __name__ == '__main__':
    sys.exit(main())
