#!/venv/bin/python
"""Sensitivity self-test: apply each mutant patch to a scratch git worktree of /repo (outside /repo and
/verif, removed afterwards; /repo itself is never touched), run the property's quick check against
that tree (VERIF_REPO), expect a VIOLATION (exit 1).  Mutants are (a) the reverse
of every `fix:` commit recorded in known_findings.json and (b) hand-written / sub-agent
patches under selftest/mutants/ and seeded/*/patch.diff.

usage: selftest/sensitivity.py [--only C01,C08] [--runs N]
"""
import argparse
import glob
import json
import os
import subprocess
import sys
import time

HERE = os.path.dirname(os.path.dirname(os.path.abspath(__file__)))
REPO = '/repo'


def sh(*a, **k):
    return subprocess.run(a, capture_output=True, text=True, **k)


def clean_tree():
    return sh('git', '-C', REPO, 'status', '--porcelain', '--untracked-files=no').stdout.strip() == ''


def run_mutant(name, pid, patch_text, reverse, runs, tier='quick', seed=None, pin=False):
    base = f"/var/tmp/vwt/{os.getpid()}-{abs(hash((name, pid))) % 10**8}"
    wt = os.path.join(base, 'repo')          # path contains '/repo/' like the real tree
    os.makedirs(base, exist_ok=True)
    r = sh('git', '-C', REPO, 'worktree', 'add', '--detach', wt, 'HEAD')
    if r.returncode != 0:
        return {'mutant': name, 'property': pid, 'result': 'worktree-failed', 'detail': r.stderr[-300:]}
    t0 = time.time()
    try:
        args = ['git', '-C', wt, 'apply'] + (['-R'] if reverse else []) + ['-']
        r = subprocess.run(args, input=patch_text, text=True, capture_output=True)
        if r.returncode != 0:
            return {'mutant': name, 'property': pid, 'result': 'patch-failed', 'detail': r.stderr[-300:]}
        cmd = [os.path.join(HERE, 'check'), pid, '--no-evidence', '--no-selftest', '--tier', tier,
               '--replay-dir', os.path.join(base, 'replays')]
        if runs:
            cmd += ['--runs', str(runs)]
        env = dict(os.environ, VERIF_REPO=wt, VERIF_SCRATCH=os.path.join(base, 'scratch'))
        if seed is not None:
            env['VERIF_SEED'] = str(seed)
        c = sh(*cmd, cwd=HERE, timeout=3600, env=env)
        lines = [ln for ln in c.stdout.splitlines() if ln.startswith(('VIOLATION', 'violation detail'))]
        res = 'caught' if c.returncode == 1 and any(ln.startswith('VIOLATION') for ln in lines) else \
            ('MISSED' if c.returncode == 0 else f'harness-exit-{c.returncode}')
        out = {'mutant': name, 'property': pid, 'result': res, 'wall_s': round(time.time() - t0, 1),
               'detail': [ln[:300] for ln in lines[:3]]}
        if res == 'caught':
            # a catch only counts if the reported history is quiet on the unchanged tree (a check that alarms on
            # the clean tree -- e.g. through a bad pinned history -- "catches" every mutant)
            rps = [ln.split('replay=')[1].strip() for ln in c.stdout.splitlines()
                   if ln.startswith('VIOLATION') and 'replay=' in ln]
            rps = [r_ for r_ in rps if os.path.exists(r_) and '-determinism-' not in r_]
            clean_env = {k: v for k, v in os.environ.items() if k != 'VERIF_REPO'}
            quiet = [r_ for r_ in rps if sh(os.path.join(HERE, 'check'), pid, '--replay', r_, cwd=HERE,
                                            env=clean_env, timeout=1800).returncode == 0]
            if rps and not quiet:
                out['result'] = res = 'INVALID(alarms-on-clean-tree)'
            elif rps:
                out['validated_quiet_on_clean_tree'] = len(quiet)
        if pin and res == 'caught':
            # keep the minimised history as a pinned plan: executed by every later batch of this check
            rp = [ln.split('replay=')[1].strip() for ln in c.stdout.splitlines() if ln.startswith('VIOLATION') and 'replay=' in ln]
            rp = [r_ for r_ in rp if os.path.exists(r_) and '-determinism-' not in r_ and r_ in quiet]
            if rp:
                doc = json.load(open(rp[0]))
                tag = name.replace('/', '-').replace('.diff', '')
                dst = os.path.join(HERE, 'pinned', f"{pid}-{tag}.json")
                os.makedirs(os.path.dirname(dst), exist_ok=True)
                with open(dst, 'w') as f:
                    json.dump({'note': f'minimised history that exposes {name} (must be quiet on the unchanged tree)',
                               'invariant': doc.get('invariant'), 'signature': doc.get('signature'),
                               'plan': doc['plan']}, f, indent=1, default=repr)
                out['pinned'] = os.path.basename(dst)
        return out
    finally:
        sh('git', '-C', REPO, 'worktree', 'remove', '--force', wt)
        import shutil
        shutil.rmtree(base, ignore_errors=True)
        sh('git', '-C', REPO, 'worktree', 'prune')


def main():
    ap = argparse.ArgumentParser()
    ap.add_argument('--only')
    ap.add_argument('--runs', type=int)
    ap.add_argument('--kinds', default='fix,mutant,seeded')
    ap.add_argument('--tier', default='quick')
    ap.add_argument('--seed', type=int)
    ap.add_argument('--jobs', type=int, default=1)
    ap.add_argument('--name', help='substring of the mutant name')
    ap.add_argument('--pin', action='store_true', help='keep the minimised history of every caught mutant under pinned/')
    a = ap.parse_args()
    only = set(a.only.split(',')) if a.only else None
    jobs = []
    kf = json.load(open(os.path.join(HERE, 'known_findings.json')))
    if 'fix' in a.kinds:
        for line in kf.get('fixed', []):
            parts = line.split()
            pid = parts[1].split('=')[1]
            commit = parts[2]
            diff = sh('git', '-C', REPO, 'diff', commit + '^', commit).stdout
            jobs.append((f'revert-{commit}', pid, diff, True))
            for extra in [p.split('=')[1] for p in parts if p.startswith('also=')]:
                for pid2 in extra.split(','):
                    jobs.append((f'revert-{commit}', pid2, diff, True))
    if 'mutant' in a.kinds:
        for f in sorted(glob.glob(os.path.join(HERE, 'selftest', 'mutants', '*.diff'))):
            pid = os.path.basename(f).split('-')[0]
            jobs.append((os.path.basename(f), pid, open(f).read(), False))
    if 'seeded' in a.kinds:
        for f in sorted(glob.glob(os.path.join(HERE, 'seeded', '*', 'patch.diff'))):
            meta = json.load(open(os.path.join(os.path.dirname(f), 'meta.json')))
            for pid in meta.get('detected_by', [meta['property']]):
                jobs.append(('seeded/' + os.path.basename(os.path.dirname(f)), pid, open(f).read(), False))
    out = []
    jobs = [j for j in jobs if (not only or j[1] in only) and (not a.name or a.name in j[0])]
    from concurrent.futures import ThreadPoolExecutor
    with ThreadPoolExecutor(a.jobs) as ex:
        futs = [ex.submit(run_mutant, name, pid, diff, rev, a.runs, a.tier, a.seed, a.pin) for name, pid, diff, rev in jobs]
        for f in futs:
            r = f.result()
            r['tier'] = a.tier
            print(json.dumps(r))
            sys.stdout.flush()
            out.append(r)
    # merge into the recorded results (a partial invocation must not drop the other entries)
    path = os.path.join(HERE, 'selftest', 'sensitivity_result.json')
    merged = {}
    if os.path.exists(path):
        for r in json.load(open(path)):
            merged[(r['mutant'], r['property'])] = r
    for r in out:
        merged[(r['mutant'], r['property'])] = r
    with open(path, 'w') as f:
        json.dump([merged[k] for k in sorted(merged)], f, indent=1)
    missed = [r for r in out if r['result'] != 'caught']
    print(f"{len(out) - len(missed)}/{len(out)} mutants caught")
    return 1 if missed else 0


if __name__ == '__main__':
    sys.exit(main())
