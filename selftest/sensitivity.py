#!/venv/bin/python
"""Sensitivity self-test: apply each mutant patch to /repo's working tree, run the property's
quick check, expect a VIOLATION (exit 1), and restore the tree.  Mutants are (a) the reverse
of every `fix:` commit recorded in known_findings.json and (b) hand-written / sub-agent
patches under selftest/mutants/ and seeded/*/patch.diff.

usage: selftest/sensitivity.py [--only C01,C08] [--runs N]
"""
import argparse
import glob
import json
import os
import subprocess
import sys
import time

HERE = os.path.dirname(os.path.dirname(os.path.abspath(__file__)))
REPO = '/repo'


def sh(*a, **k):
    return subprocess.run(a, capture_output=True, text=True, **k)


def clean_tree():
    return sh('git', '-C', REPO, 'status', '--porcelain', '--untracked-files=no').stdout.strip() == ''


def run_mutant(name, pid, patch_text, reverse, runs):
    assert clean_tree(), '/repo has uncommitted changes'
    args = ['git', '-C', REPO, 'apply'] + (['-R'] if reverse else []) + ['-']
    r = subprocess.run(args, input=patch_text, text=True, capture_output=True)
    if r.returncode != 0:
        return {'mutant': name, 'property': pid, 'result': 'patch-failed', 'detail': r.stderr[-300:]}
    t0 = time.time()
    try:
        cmd = [os.path.join(HERE, 'check'), pid, '--no-evidence', '--no-selftest']
        if runs:
            cmd += ['--runs', str(runs)]
        c = sh(*cmd, cwd=HERE, timeout=1800)
        lines = [ln for ln in c.stdout.splitlines() if ln.startswith(('VIOLATION', 'violation detail'))]
        res = 'caught' if c.returncode == 1 and any(ln.startswith('VIOLATION') for ln in lines) else \
            ('MISSED' if c.returncode == 0 else f'harness-exit-{c.returncode}')
        return {'mutant': name, 'property': pid, 'result': res, 'wall_s': round(time.time() - t0, 1),
                'detail': [ln[:300] for ln in lines[:3]]}
    finally:
        sh('git', '-C', REPO, 'checkout', '--', '.')


def main():
    ap = argparse.ArgumentParser()
    ap.add_argument('--only')
    ap.add_argument('--runs', type=int)
    ap.add_argument('--kinds', default='fix,mutant,seeded')
    a = ap.parse_args()
    only = set(a.only.split(',')) if a.only else None
    jobs = []
    kf = json.load(open(os.path.join(HERE, 'known_findings.json')))
    if 'fix' in a.kinds:
        for line in kf.get('fixed', []):
            parts = line.split()
            pid = parts[1].split('=')[1]
            commit = parts[2]
            diff = sh('git', '-C', REPO, 'diff', commit + '^', commit).stdout
            jobs.append((f'revert-{commit}', pid, diff, True))
            for extra in [p.split('=')[1] for p in parts if p.startswith('also=')]:
                for pid2 in extra.split(','):
                    jobs.append((f'revert-{commit}', pid2, diff, True))
    if 'mutant' in a.kinds:
        for f in sorted(glob.glob(os.path.join(HERE, 'selftest', 'mutants', '*.diff'))):
            pid = os.path.basename(f).split('-')[0]
            jobs.append((os.path.basename(f), pid, open(f).read(), False))
    if 'seeded' in a.kinds:
        for f in sorted(glob.glob(os.path.join(HERE, 'seeded', '*', 'patch.diff'))):
            meta = json.load(open(os.path.join(os.path.dirname(f), 'meta.json')))
            for pid in meta.get('detected_by', [meta['property']]):
                jobs.append(('seeded/' + os.path.basename(os.path.dirname(f)), pid, open(f).read(), False))
    out = []
    for name, pid, diff, rev in jobs:
        if only and pid not in only:
            continue
        r = run_mutant(name, pid, diff, rev, a.runs)
        print(json.dumps(r))
        sys.stdout.flush()
        out.append(r)
    # merge into the recorded results (a partial invocation must not drop the other entries)
    path = os.path.join(HERE, 'selftest', 'sensitivity_result.json')
    merged = {}
    if os.path.exists(path):
        for r in json.load(open(path)):
            merged[(r['mutant'], r['property'])] = r
    for r in out:
        merged[(r['mutant'], r['property'])] = r
    with open(path, 'w') as f:
        json.dump([merged[k] for k in sorted(merged)], f, indent=1)
    missed = [r for r in out if r['result'] != 'caught']
    print(f"{len(out) - len(missed)}/{len(out)} mutants caught")
    return 1 if missed else 0


if __name__ == '__main__':
    sys.exit(main())
