"""Python side of the simdisk shim: control through ctypes, trace parsing, crash-image builder."""
import ctypes
import os
import struct

_lib = None
_sql = None


def lib():
    global _lib
    if _lib is None:
        h = ctypes.CDLL(None)
        try:
            h.simdisk_loaded
        except AttributeError:
            raise RuntimeError('simdisk shim not loaded: start the check through ./check (LD_PRELOAD)')
        h.simdisk_begin.argtypes = [ctypes.c_char_p, ctypes.c_char_p]
        h.simdisk_mark.argtypes = [ctypes.c_char_p]
        h.simdisk_arm.argtypes = [ctypes.c_long, ctypes.c_long]
        h.simdisk_trace.argtypes = [ctypes.POINTER(ctypes.c_long)]
        h.simdisk_trace.restype = ctypes.c_void_p
        h.simdisk_evno.restype = ctypes.c_long
        _lib = h
    return _lib


def available():
    try:
        lib()
        return True
    except RuntimeError:
        return False


def reseed_sqlite():
    """Make sqlite re-seed its PRNG (journal nonces) from the next read of /dev/urandom."""
    global _sql
    if _sql is None:
        _sql = ctypes.CDLL('libsqlite3.so.0')
        _sql.sqlite3_randomness.argtypes = [ctypes.c_int, ctypes.c_void_p]
    _sql.sqlite3_randomness(0, None)


def begin(root, seed_bytes_path=None):
    lib().simdisk_begin(root.encode(), seed_bytes_path.encode() if seed_bytes_path else None)
    reseed_sqlite()


def end():
    lib().simdisk_end()


def mark(text):
    if _lib is not None:
        _lib.simdisk_mark(text.encode())


def arm(at, cut=-1):
    lib().simdisk_arm(at, cut)


HDR = struct.Struct('<cc q q q i q')


def trace():
    n = ctypes.c_long(0)
    ptr = lib().simdisk_trace(ctypes.byref(n))
    b = ctypes.string_at(ptr, n.value) if n.value else b''
    return parse(b)


def parse(b):
    ev = []
    i = 0
    while i < len(b):
        e, kind, evno, off, ln, pl, dl = HDR.unpack_from(b, i)
        i += HDR.size
        path = b[i:i + pl].decode()
        i += pl
        data = b[i:i + dl]
        i += dl
        ev.append((kind.decode(), evno, off, ln, path, data))
    return ev


class Images:
    """Directory image after every event prefix of a recorded trace (kill semantics: all earlier system
    calls fully applied, nothing later), plus page-boundary torn variants of multi-page writes."""

    def __init__(self, events, root):
        self.events = events
        self.root = root
        self.files = {}

    def rel(self, path):
        return path[len(self.root):].lstrip('/')

    def apply(self, e, cut=None):
        kind, evno, off, ln, path, data = e
        rel = self.rel(path)
        if kind == 'W':
            if cut is not None:
                data = data[:cut]
            buf = self.files.setdefault(rel, bytearray())
            if len(buf) < off:
                buf.extend(b'\0' * (off - len(buf)))
            buf[off:off + len(data)] = data
        elif kind == 'O':
            if ln < 0:
                return          # the open failed
            if off & os.O_CREAT:
                self.files.setdefault(rel, bytearray())
            if off & os.O_TRUNC and rel in self.files:
                self.files[rel] = bytearray()
        elif kind == 'U':
            self.files.pop(rel, None)
        elif kind == 'T':
            buf = self.files.setdefault(rel, bytearray())
            del buf[off:]
            if len(buf) < off:
                buf.extend(b'\0' * (off - len(buf)))
        elif kind == 'R':
            dst = self.rel(data.decode())
            if rel in self.files:
                self.files[dst] = self.files.pop(rel)

    def dump(self, target, extra=None):
        os.makedirs(target, exist_ok=True)
        for fn in os.listdir(target):
            os.unlink(os.path.join(target, fn))
        files = dict(self.files)
        if extra:
            files.update(extra)
        for rel, buf in files.items():
            if '/' in rel:
                continue
            with open(os.path.join(target, rel), 'wb') as f:
                f.write(bytes(buf))

    @staticmethod
    def torn_cuts(e, page=4096):
        """Byte counts at which a write can be cut at a file-offset page boundary."""
        kind, evno, off, ln, path, data = e
        if kind != 'W':
            return []
        cuts = []
        nxt = (off // page + 1) * page
        while nxt < off + ln:
            cuts.append(nxt - off)
            nxt += page
        return cuts
