// simdisk: LD_PRELOAD shim that records (and can cut short) every file-system call made on
// paths under a root directory.  Controlled programmatically (ctypes) by the simulator:
//   simdisk_begin(root, urandom_path)  start recording under `root`, reset event counter/trace
//   simdisk_end()                      stop
//   simdisk_mark(text)                 put a marker into the trace
//   simdisk_arm(at, cut)               at event number `at`: apply only `cut` bytes of a write
//                                      (cut<0: nothing) and _exit(137)
//   simdisk_trace(&len)                pointer to the in-memory trace
// Trace record: 'E' kind(1) evno(8) off(8) len(8) pathlen(4) datalen(8) path data
#define _GNU_SOURCE
#include <dlfcn.h>
#include <errno.h>
#include <fcntl.h>
#include <stdarg.h>
#include <stdint.h>
#include <stdio.h>
#include <stdlib.h>
#include <string.h>
#include <sys/stat.h>
#include <sys/types.h>
#include <unistd.h>

#define MAXFD 4096
static char *fdpath[MAXFD];
static int enabled = 0;
static char root[1024];
static size_t rootlen = 0;
static char urandom_path[1024];
static long evno = 0;
static long crash_at = -1;
static long crash_cut = -1;
static char *trace = NULL;
static size_t trace_len = 0, trace_cap = 0;
static int inited = 0;

static ssize_t (*r_write)(int, const void *, size_t);
static ssize_t (*r_pwrite64)(int, const void *, size_t, off_t);
static ssize_t (*r_pwrite)(int, const void *, size_t, off_t);
static int (*r_open)(const char *, int, ...);
static int (*r_open64)(const char *, int, ...);
static int (*r_openat)(int, const char *, int, ...);
static int (*r_openat64)(int, const char *, int, ...);
static int (*r_close)(int);
static int (*r_unlink)(const char *);
static int (*r_unlinkat)(int, const char *, int);
static int (*r_ftruncate)(int, off_t);
static int (*r_ftruncate64)(int, off_t);
static int (*r_fsync)(int);
static int (*r_fdatasync)(int);
static int (*r_rename)(const char *, const char *);

static void init(void) {
  if (inited) return;
  inited = 1;
  r_write = dlsym(RTLD_NEXT, "write");
  r_pwrite64 = dlsym(RTLD_NEXT, "pwrite64");
  r_pwrite = dlsym(RTLD_NEXT, "pwrite");
  r_open = dlsym(RTLD_NEXT, "open");
  r_open64 = dlsym(RTLD_NEXT, "open64");
  r_openat = dlsym(RTLD_NEXT, "openat");
  r_openat64 = dlsym(RTLD_NEXT, "openat64");
  r_close = dlsym(RTLD_NEXT, "close");
  r_unlink = dlsym(RTLD_NEXT, "unlink");
  r_unlinkat = dlsym(RTLD_NEXT, "unlinkat");
  r_ftruncate = dlsym(RTLD_NEXT, "ftruncate");
  r_ftruncate64 = dlsym(RTLD_NEXT, "ftruncate64");
  r_fsync = dlsym(RTLD_NEXT, "fsync");
  r_fdatasync = dlsym(RTLD_NEXT, "fdatasync");
  r_rename = dlsym(RTLD_NEXT, "rename");
}

static int match(const char *p) { return enabled && p && rootlen && strncmp(p, root, rootlen) == 0; }

static void put(const void *p, size_t n) {
  if (trace_len + n > trace_cap) {
    size_t nc = trace_cap ? trace_cap * 2 : (1 << 20);
    while (nc < trace_len + n) nc *= 2;
    trace = realloc(trace, nc);
    trace_cap = nc;
  }
  memcpy(trace + trace_len, p, n);
  trace_len += n;
}

static void emit(char kind, const char *path, int64_t off, int64_t len, const void *data, int64_t dlen) {
  char hdr[2 + 8 + 8 + 8 + 4 + 8];
  int32_t pl = path ? (int32_t)strlen(path) : 0;
  int64_t e = evno;
  char *q = hdr; *q++ = 'E'; *q++ = kind;
  memcpy(q, &e, 8); q += 8; memcpy(q, &off, 8); q += 8; memcpy(q, &len, 8); q += 8;
  memcpy(q, &pl, 4); q += 4; memcpy(q, &dlen, 8); q += 8;
  put(hdr, sizeof hdr);
  if (pl) put(path, pl);
  if (dlen > 0) put(data, dlen);
}

void simdisk_begin(const char *r, const char *u) {
  init();
  strncpy(root, r, sizeof root - 1); rootlen = strlen(root);
  if (u) strncpy(urandom_path, u, sizeof urandom_path - 1); else urandom_path[0] = 0;
  evno = 0; trace_len = 0; crash_at = -1; crash_cut = -1; enabled = 1;
  for (int i = 0; i < MAXFD; i++) { free(fdpath[i]); fdpath[i] = NULL; }
}
void simdisk_end(void) { enabled = 0; }
void simdisk_mark(const char *s) { init(); if (enabled) emit('M', s, 0, 0, NULL, 0); }
void simdisk_arm(long at, long cut) { crash_at = at; crash_cut = cut; }
long simdisk_evno(void) { return evno; }
const char *simdisk_trace(long *len) { *len = (long)trace_len; return trace; }
int simdisk_loaded(void) { return 1; }

static void die(void) { _exit(137); }

static const char *redirect(const char *p) {
  if (enabled && urandom_path[0] && p && strcmp(p, "/dev/urandom") == 0) return urandom_path;
  return p;
}
static void pre_open(const char *path) {
  // counted before the call: a process killed "at" an open has not created the file yet
  if (match(path)) { evno++; if (evno == crash_at) die(); }
}
static void track_open(int fd, const char *path, int flags) {
  if (match(path)) {
    if (fd >= 0 && fd < MAXFD) { free(fdpath[fd]); fdpath[fd] = strdup(path); }
    emit('O', path, flags, fd >= 0 ? 0 : -1, NULL, 0);
  }
}
#define GETMODE mode_t m = 0; if (flags & (O_CREAT | O_TMPFILE)) { va_list a; va_start(a, flags); m = va_arg(a, mode_t); va_end(a); }
int open(const char *p, int flags, ...) { init(); GETMODE; p = redirect(p); pre_open(p); int fd = r_open(p, flags, m); track_open(fd, p, flags); return fd; }
int open64(const char *p, int flags, ...) { init(); GETMODE; p = redirect(p); pre_open(p); int fd = r_open64(p, flags, m); track_open(fd, p, flags); return fd; }
int openat(int d, const char *p, int flags, ...) { init(); GETMODE; p = redirect(p); pre_open(p); int fd = r_openat(d, p, flags, m); track_open(fd, p, flags); return fd; }
int openat64(int d, const char *p, int flags, ...) { init(); GETMODE; p = redirect(p); pre_open(p); int fd = r_openat64(d, p, flags, m); track_open(fd, p, flags); return fd; }
int close(int fd) {
  init();
  if (fd >= 0 && fd < MAXFD && fdpath[fd]) {
    if (enabled) { evno++; if (evno == crash_at) die(); emit('C', fdpath[fd], 0, 0, NULL, 0); }
    free(fdpath[fd]); fdpath[fd] = NULL;
  }
  return r_close(fd);
}
static ssize_t do_pwrite(int fd, const void *b, size_t n, off_t off, int use64) {
  if (enabled && fd >= 0 && fd < MAXFD && fdpath[fd]) {
    evno++;
    if (evno == crash_at) {
      if (crash_cut > 0) { size_t k = (size_t)crash_cut < n ? (size_t)crash_cut : n; if (use64) r_pwrite64(fd, b, k, off); else r_pwrite(fd, b, k, off); }
      die();
    }
    emit('W', fdpath[fd], off, n, b, n);
  }
  return use64 ? r_pwrite64(fd, b, n, off) : r_pwrite(fd, b, n, off);
}
ssize_t pwrite64(int fd, const void *b, size_t n, off_t off) { init(); return do_pwrite(fd, b, n, off, 1); }
ssize_t pwrite(int fd, const void *b, size_t n, off_t off) { init(); return do_pwrite(fd, b, n, off, 0); }
ssize_t write(int fd, const void *b, size_t n) {
  init();
  if (enabled && fd >= 0 && fd < MAXFD && fdpath[fd]) {
    evno++;
    off_t off = lseek(fd, 0, SEEK_CUR);
    if (evno == crash_at) { if (crash_cut > 0) r_write(fd, b, (size_t)crash_cut < n ? (size_t)crash_cut : n); die(); }
    emit('W', fdpath[fd], off, n, b, n);
  }
  return r_write(fd, b, n);
}
int unlink(const char *p) { init(); if (match(p)) { evno++; if (evno == crash_at) die(); emit('U', p, 0, 0, NULL, 0); } return r_unlink(p); }
int unlinkat(int d, const char *p, int f) { init(); if (match(p)) { evno++; if (evno == crash_at) die(); emit('U', p, 0, 0, NULL, 0); } return r_unlinkat(d, p, f); }
int ftruncate(int fd, off_t len) { init(); if (enabled && fd >= 0 && fd < MAXFD && fdpath[fd]) { evno++; if (evno == crash_at) die(); emit('T', fdpath[fd], len, 0, NULL, 0); } return r_ftruncate(fd, len); }
int ftruncate64(int fd, off_t len) { init(); if (enabled && fd >= 0 && fd < MAXFD && fdpath[fd]) { evno++; if (evno == crash_at) die(); emit('T', fdpath[fd], len, 0, NULL, 0); } return r_ftruncate64(fd, len); }
int fsync(int fd) { init(); if (enabled && fd >= 0 && fd < MAXFD && fdpath[fd]) { evno++; if (evno == crash_at) die(); emit('S', fdpath[fd], 0, 0, NULL, 0); } return r_fsync(fd); }
int fdatasync(int fd) { init(); if (enabled && fd >= 0 && fd < MAXFD && fdpath[fd]) { evno++; if (evno == crash_at) die(); emit('S', fdpath[fd], 0, 0, NULL, 0); } return r_fdatasync(fd); }
int rename(const char *a, const char *b) { init(); if (match(a) || match(b)) { evno++; if (evno == crash_at) die(); emit('R', a, 0, 0, b, strlen(b)); } return r_rename(a, b); }
