"""recsim: recorded runs of generated worlds.  One generator / executor shared by C17 (faithful,
filtered, ordered), C18 (crash images) and C19 (load_case)."""
import copy
import fnmatch
import json
import os
import types

import numpy as np

import openmdao.api as om
from openmdao.core.analysis_error import AnalysisError
from openmdao.core.driver import Driver
from openmdao.core.problem import Problem
from openmdao.core.system import System
from openmdao.recorders.case_recorder import CaseRecorder
from openmdao.solvers.solver import Solver

from dst.core.util import dyadic
from dst.simdisk import disk
from dst.world import spec
from dst.world import build as B
from dst.world.checks import gen_set, gen_faults


# ----------------------------------------------------------------------------- simulated clock
class SimClock:
    """Replacement for the `time` module attribute of recording_manager: seeded increments, stalls,
    backward and huge forward jumps."""

    def __init__(self, steps):
        self.steps = list(steps) or [1e-3]
        self.k = 0
        self.t = 1000.0
        self.total = 0.0

    def perf_counter(self):
        d = self.steps[self.k % len(self.steps)]
        self.k += 1
        self.t += d
        self.total += abs(d)
        return self.t


# ----------------------------------------------------------------------------- shadow recorder
class ShadowRecorder(CaseRecorder):
    """Reference model for C17: remembers, for every record call, who asked, the iteration stack as
    tuples, what was handed over and an independent snapshot of the model at that instant."""

    def __init__(self, runtime_ref):
        super().__init__(record_viewer_data=False)
        self.events = []
        self.rt_ref = runtime_ref      # () -> (problem, Runtime, world)

    def startup(self, recording_requester, comm=None):
        super().startup(recording_requester, comm)

    def record_iteration(self, requester, data, metadata, **kwargs):
        p, rt, world = self.rt_ref()
        if isinstance(requester, Driver):
            kind, path = 'driver', ''
        elif isinstance(requester, System):
            kind, path = 'system', requester.pathname
        elif isinstance(requester, Solver):
            kind, path = 'solver', requester._system().pathname
        elif isinstance(requester, Problem):
            kind, path = 'problem', ''
        else:
            raise TypeError(type(requester))
        it = requester._recording_iter
        stack = [(n, int(i)) for n, i in it.stack]
        coord = it.get_formatted_iteration_coordinate()
        name = metadata['name'] if kind == 'problem' else coord
        ev = {'seq': len(self.events), 'kind': kind, 'path': path, 'name': name, 'stack': stack,
              'prefix': it.prefix, 'timestamp': metadata.get('timestamp'),
              'success': metadata.get('success'), 'msg': metadata.get('msg'),
              'data': {k: ({n: np.array(v).copy() if isinstance(v, np.ndarray) else copy.deepcopy(v)
                            for n, v in d.items()} if isinstance(d, dict) else copy.deepcopy(d))
                       for k, d in data.items()},
              'solver_class': type(requester).__name__ if kind == 'solver' else None}
        # independent snapshot of the model at this instant
        model = p.model
        snap = {'output': {}, 'input': {}, 'residual': {}}
        try:
            for n in model._outputs._abs_iter():
                snap['output'][n] = np.array(model._outputs._abs_get_val(n, flat=False)).copy()
                snap['residual'][n] = np.array(model._residuals._abs_get_val(n, flat=False)).copy()
            for n in model._inputs._abs_iter():
                snap['input'][n] = np.array(model._inputs._abs_get_val(n, flat=False)).copy()
        except Exception:      # noqa
            pass
        ev['snap'] = snap
        ev['stub_out'] = {k: v.copy() for k, v in rt.last_out.items()}
        self.events.append(ev)
        disk.mark(f"shadow:{kind}:{name}")

    def record_metadata_system(self, *a, **k):
        pass

    def record_metadata_solver(self, *a, **k):
        pass

    def record_viewer_data(self, *a, **k):
        pass

    def record_derivatives(self, requester, data, metadata, **kwargs):
        if self.events:
            self.events[-1].setdefault('derivs', []).append(
                {k: np.array(v).copy() for k, v in data.items()})

    def record_derivatives_driver(self, requester, data, metadata):
        self.record_derivatives(requester, data, metadata)

    def shutdown(self):
        pass


# ----------------------------------------------------------------------------- plan generation
PATTERN_FORMS = ['exact', 'prefix', 'suffix', 'all', 'qmark', 'nomatch']


def _patterns(rng, names, n):
    out = []
    for _ in range(n):
        nm = rng.choice(names) if names else 'x'
        f = rng.choice(PATTERN_FORMS)
        if f == 'exact':
            out.append(nm)
        elif f == 'prefix':
            out.append(nm[:max(1, len(nm) // 2)] + '*')
        elif f == 'suffix':
            out.append('*' + nm[len(nm) // 2:])
        elif f == 'all':
            out.append('*')
        elif f == 'qmark':
            k = rng.randrange(len(nm))
            out.append(nm[:k] + '?' + nm[k + 1:])
        else:
            out.append('zz_' + nm)
    return out


def target_names(world, target):
    """(promoted output names, absolute input names) as the requester's includes/excludes see them."""
    own = B.owner_of(world)
    if target.startswith('sys:') or target.startswith('nl:'):
        path = target.split(':', 1)[1]
    else:
        path = ''
    outs, ins = [], []
    comps = B.comp_by_name(world)
    if path in world['groups']:
        scope = [c for c in world['comps'] if path == '' or c['group'] == path or c['group'].startswith(path + '.')]
        at = path
        for c in scope:
            for o in c['outs']:
                if target.startswith('nl:'):
                    # solver recorders match patterns against absolute names relative to their system
                    outs.append(B.abs_name(world, o['name'])[len(path) + 1 if path else 0:])
                else:
                    outs.append(B.rel_name(world, o['name'], at))
            for i in c['ins']:
                a = B.abs_name(world, i['name'])
                ins.append(a[len(path) + 1 if path else 0:] if target.startswith('nl:') else a)
    else:
        cname = path.split('.')[-1]
        c = comps[cname]
        for o in c['outs']:
            outs.append(o['name'])
        for i in c['ins']:
            ins.append(B.abs_name(world, i['name']))
    return outs, ins


def gen_options(rng, world, target):
    outs, ins = target_names(world, target)
    names = outs + ins
    o = {}
    if rng.random() < 0.55:
        o['includes'] = _patterns(rng, names, rng.randint(0, 3))
    if rng.random() < 0.45:
        o['excludes'] = _patterns(rng, names, rng.randint(0, 2))
    kind = target.split(':')[0]
    if kind in ('sys',):
        for f in ('record_inputs', 'record_outputs', 'record_residuals'):
            if rng.random() < 0.5:
                o[f] = rng.random() < 0.7
    elif kind == 'nl':
        for f in ('record_inputs', 'record_outputs', 'record_solver_residuals', 'record_abs_error',
                  'record_rel_error'):
            if rng.random() < 0.5:
                o[f] = rng.random() < 0.7
    else:
        for f in ('record_inputs', 'record_outputs', 'record_residuals', 'record_desvars', 'record_objectives',
                  'record_constraints', 'record_responses'):
            if rng.random() < 0.45:
                o[f] = rng.random() < 0.6
        if kind == 'driver' and rng.random() < 0.3:
            o['record_derivatives'] = True
    return o


def gen_rec_plan(rng, tier, small=False, extra_k=None):
    k = dict(ncomp=(2, 4) if small else (2, 5), forms=spec.FORMS_BASIC + ['neglist', 'tuple'], temps=False, groups=0.7,
             promote=0.5, auto_ivc=0.3, cycle=rng.choice([0.0, 1.0, 1.0]), nl=['nlbgs', 'nlbgs', 'newton', 'nlbj'],
             ln=['direct', 'direct_csc', 'lnbgs'], root_ln=['direct', 'direct_csc', 'runonce'],
             scaling=rng.choice([0.0, 0.0, 0.3]), quad=rng.choice([0.0, 0.3]), imp=rng.choice([0.0, 0.2]),
             shapes=[[1], [2], [3], [2, 2]])
    k.update(extra_k or {})
    world = spec.gen_world(rng, k)
    for d in world['dvs']:
        d['lower'], d['upper'] = -3.0, 3.0
        d.pop('scaler', None), d.pop('adder', None), d.pop('ref', None), d.pop('ref0', None)
    own = B.owner_of(world)
    dk = rng.choice(['plain', 'plain', 'doe_list', 'doe_list', 'doe_ff', 'doe_uniform', 'slsqp'])
    drv = {'kind': dk}
    if dk == 'doe_list':
        cases = []
        for _ in range(rng.randint(1, 4 if small else 6)):
            case = []
            for d in world['dvs']:
                n = len(d['indices']) if 'indices' in d else int(np.prod(own[d['name']][2]['shape']))
                case.append([d['name'], [dyadic(rng, -2, 2, 2) for _ in range(n)]])
            cases.append(case)
        drv['cases'] = cases
    elif dk == 'doe_ff':
        drv['levels'] = 2
        # keep the factorial small
        tot = 0
        keep = []
        for d in world['dvs']:
            n = len(d['indices']) if 'indices' in d else int(np.prod(own[d['name']][2]['shape']))
            if tot + n <= 3:
                keep.append(d)
                tot += n
        if keep:
            world['dvs'] = keep
        else:
            d = world['dvs'][0]
            n = int(np.prod(own[d['name']][2]['shape']))
            d['indices'] = [0]
            world['dvs'] = [d]
    elif dk == 'doe_uniform':
        drv['n'] = rng.randint(1, 5)
        drv['seed'] = rng.randint(0, 999)
    elif dk == 'slsqp':
        drv['maxiter'] = rng.randint(1, 4)
    # recorder attachment
    targets = ['problem', 'driver'] + ['sys:' + g for g in world['groups']]
    for c in world['comps']:
        if c['kind'] != 'ivc':
            targets.append('sys:' + (c['group'] + '.' if c['group'] else '') + c['name'])
    for g, s in world['solvers'].items():
        if s['nl'] != 'runonce':
            targets.append('nl:' + g)
    nfiles = 1 if (small or rng.random() < 0.7) else 2
    recs = []
    for f in range(nfiles):
        att = [t for t in targets if rng.random() < 0.55] or [rng.choice(targets)]
        recs.append({'file': f'cases{f}.sql', 'attach': att})
    opts = {t: gen_options(rng, world, t) for t in targets if any(t in r['attach'] for r in recs)}
    # ops
    ops = []
    nf = 0
    pre = rng.choice(['p', 'run', 'c'])
    for j in range(rng.randint(2, 4 if small else 7)):
        tag = f"{pre}{j + 1 if j < 3 else j + 8}"     # p1 p2 p3 p12 p13: string prefixes of each other exist
        r = rng.random()
        if r < 0.35:
            ops.append(gen_set(rng, world))
        if rng.random() < 0.2 and nf < 2:
            ops += gen_faults(rng, world, 1, methods=['compute', 'solve_nonlinear'])
            nf += 1
        if j > 0 and rng.random() < 0.2:
            # the user changes the recording options of an attached driver / problem between two runs
            cand = [t for t in ('driver', 'problem') if t in opts]
            if cand:
                t = rng.choice(cand)
                ops.append({'op': 'rec_options', 'target': t, 'options': gen_options(rng, world, t)})
        r = rng.random()
        if r < 0.4:
            ops.append({'op': 'run_model', 'prefix': tag})
        elif r < 0.8:
            ops.append({'op': 'run_driver', 'prefix': tag})
        else:
            ops.append({'op': 'record', 'name': tag})
    clock = [rng.choice([1e-3, 1e-3, 0.0, -5.0, 1e6, 1e-9]) for _ in range(rng.randint(1, 7))]
    return {'world': world, 'knobs': {'mode': rng.choice(['auto', 'fwd', 'rev'])}, 'driver': drv,
            'recorders': recs, 'options': opts, 'ops': ops, 'clock': clock}


# ----------------------------------------------------------------------------- executor
class RecRun:
    def __init__(self, plan, workdir, log=None, use_disk=False, name='r'):
        self.plan = plan
        self.world = copy.deepcopy(plan['world'])
        self.workdir = workdir
        self.log = log
        self.use_disk = use_disk
        self.name = name
        self.rt = B.Runtime(self.world, log)
        self.p = None
        self.shadow = ShadowRecorder(lambda: (self.p, self.rt, self.world))
        self.files = {}
        self.raised = []
        self.fired = []
        self.options_now = {}       # target -> recording options in force (after rec_options ops)

    def _driver(self):
        d = self.plan['driver']
        w = self.world
        if d['kind'] == 'plain':
            from openmdao.core.driver import Driver as _D
            return _D()
        if d['kind'] == 'doe_list':
            cases = [[(B.rel_name(w, n, ''), np.array(v)) for n, v in case] for case in d['cases']]
            return om.DOEDriver(om.ListGenerator(cases))
        if d['kind'] == 'doe_ff':
            return om.DOEDriver(om.FullFactorialGenerator(levels=d['levels']))
        if d['kind'] == 'doe_uniform':
            return om.DOEDriver(om.UniformGenerator(num_samples=d['n'], seed=d['seed']))
        if d['kind'] == 'slsqp':
            drv = om.ScipyOptimizeDriver(optimizer='SLSQP', maxiter=d['maxiter'], disp=False)
            return drv
        raise ValueError(d['kind'])

    def _target(self, t):
        if t == 'problem':
            return self.p
        if t == 'driver':
            return self.p.driver
        kind, path = t.split(':', 1)
        obj = self.p.model
        if path:
            for part in path.split('.'):
                obj = getattr(obj, part)
        return obj if kind == 'sys' else obj.nonlinear_solver

    def build(self):
        import openmdao.recorders.recording_manager as rm
        self.clock = SimClock(self.plan.get('clock', [1e-3]))
        self._rm = rm
        self._saved_time = rm.time
        rm.time = self.clock
        tol = {'atol': 1e-10, 'rtol': 1e-12, 'maxiter': 60}
        self.p, self.groups = B.build(self.world, self.rt, name=self.name, tol=tol)
        for g, s in self.world['solvers'].items():
            if s['nl'] != 'runonce':
                self.groups[g].nonlinear_solver.options['err_on_non_converge'] = False
        self.p.driver = self._driver()
        os.makedirs(self.workdir, exist_ok=True)
        recorders = {}
        for r in self.plan['recorders']:
            path = os.path.join(self.workdir, r['file'])
            self.files[r['file']] = path
            recorders[r['file']] = om.SqliteRecorder(path, record_viewer_data=False)
        attached = set()
        for r in self.plan['recorders']:
            for t in r['attach']:
                obj = self._target(t)
                if t not in attached:
                    obj.add_recorder(self.shadow)       # the shadow first: the sqlite recorder mutates data
                    attached.add(t)
                    for k, v in self.plan['options'].get(t, {}).items():
                        obj.recording_options[k] = v
                obj.add_recorder(recorders[r['file']])
        self.recorders = recorders
        self.p.setup(mode=self.plan['knobs'].get('mode', 'auto'))

    def close(self):
        if getattr(self, '_rm', None) is not None:
            self._rm.time = self._saved_time
            self._rm = None

    def do(self, op):
        kind = op['op']
        before = len(self.rt.fired)
        ev_before = len(self.shadow.events)
        disk.mark(f"op:{kind}:{op.get('prefix') or op.get('name') or ''}")
        err = None
        import contextlib
        import io
        try:
          with contextlib.redirect_stdout(io.StringIO()):
              if kind == 'set_val':
                  self._set_val(op)
              elif kind == 'fault':
                  self.rt.arm([{k: op[k] for k in ('comp', 'method', 'n', 'kind')}])
              elif kind == 'run_model':
                  self.p.run_model(case_prefix=op['prefix'])
              elif kind == 'run_driver':
                  self.p.run_driver(case_prefix=op['prefix'])
              elif kind == 'record':
                  self.p.final_setup()
                  self.p.record(op['name'])
              elif kind == 'rec_options':
                  obj = self._target(op['target'])
                  cur = self.options_now.setdefault(op['target'], dict(self.plan['options'].get(op['target'], {})))
                  for k, v in op['options'].items():
                      if k == 'record_derivatives':
                          continue
                      obj.recording_options[k] = v
                      cur[k] = v
              else:
                  raise ValueError(kind)
        except AnalysisError as e:
            err = e
        except Exception as e:      # noqa
            # an injected NaN may surface as a RuntimeError from a linear solver inside the optimizer;
            # anything else is not expected from a valid call
            if len(self.rt.fired) == before and not (any(f['kind'] == 'nan' for f in self.rt.fired)
                                                      and 'NaN' in str(e)):
                raise       # (a NaN injected by an earlier op may still sit in a sub-jacobian)
            err = e
        disk.mark(f"opdone:{kind}")
        if kind != 'fault':
            self.rt.disarm()
        fired = self.rt.fired[before:]
        if err is not None:
            self.raised.append((op, str(err)[:200]))
        # bookkeeping for the oracles: was the model at a converged, fault-free point when a case was taken?
        if kind in ('run_model', 'run_driver'):
            self.converged = err is None and not fired
        elif kind == 'set_val':
            self.converged = False
        for e in self.shadow.events[ev_before:]:
            tgt_ = 'problem' if e['kind'] == 'problem' else ('driver' if e['kind'] == 'driver' else None)
            if tgt_ in self.options_now:
                e['options'] = dict(self.options_now[tgt_])
            e['op_faulted'] = bool(fired) or err is not None
            e['at_converged'] = (getattr(self, 'converged', False) if e['kind'] == 'problem'
                                 else (err is None and not fired))
        if fired and any(f['kind'] == 'nan' for f in fired):
            self.rt.enabled = False
            try:
                for c in self.world['comps']:
                    if c['kind'] != 'ivc':
                        for o in c['outs']:
                            self.p.set_val(B.abs_name(self.world, o['name']), np.ones(o['shape']))
            finally:
                self.rt.enabled = True
        return err, fired

    def _set_val(self, op):
        own = B.owner_of(self.world)
        c, io_, v = own[op['var']]
        name = B.abs_name(self.world, op['var']) if op.get('form') == 'abs' else B.rel_name(self.world, op['var'], '')
        sel, shape = spec.apply_index(v['shape'], op.get('idx'), False)
        vals = np.resize(np.array(op['vals'], dtype=float), len(sel)).reshape(shape)
        kw = {}
        if op.get('idx') is not None:
            kw['indices'] = B.to_index(op['idx'])
            if np.ndim(np.zeros(v['shape'])[spec.decode_index(op['idx'])]) == 0:
                vals = vals.reshape(())
        if op.get('units'):
            kw['units'] = op['units']
        self.p.set_val(name, vals, **kw)

    def run_all(self):
        self.build()
        try:
            if self.use_disk:
                disk.mark('setup-done')
            for op in self.plan['ops']:
                self.do(op)
            self.p.cleanup()
            if self.use_disk:
                disk.mark('cleanup-done')
        finally:
            self.close()


# ----------------------------------------------------------------------------- reading back
def read_file(path, with_data=True, tail=None):
    """Everything a user can get out of a recording, in plain Python structures."""
    cr = om.CaseReader(path)
    names = cr.list_cases(out_stream=None)
    out = {'cases': list(names), 'sources': {}, 'flat': {}, 'data': {}, 'by_index': []}
    for src in cr.list_sources(out_stream=None):
        out['sources'][src] = list(cr.list_cases(src, recurse=False, out_stream=None))
        if src != 'problem':
            out['flat'][src] = list(cr.list_cases(src, recurse=True, flat=True, out_stream=None))
    if with_data:
        for i, n in enumerate(names):
            if tail is not None and i < len(names) - tail:
                continue
            c = cr.get_case(n)
            d = {'source': c.source, 'counter': c.counter, 'success': c.success, 'msg': c.msg,
                 'abs_err': c.abs_err, 'rel_err': c.rel_err, 'timestamp': c.timestamp, 'name': c.name}
            for kind in ('inputs', 'outputs', 'residuals'):
                v = getattr(c, kind)
                if v is None:
                    d[kind] = None
                else:
                    d[kind] = {k: np.array(v[k]).copy() for k in v.absolute_names()}
            if c.derivatives is not None:
                d['derivs'] = {str(k): np.array(c.derivatives[k]).copy() for k in c.derivatives.keys()}
            else:
                d['derivs'] = None
            out['data'][n] = d
        for i in range(len(names)):
            if tail is not None and i < len(names) - tail:
                out['by_index'].append(names[i])
                continue
            try:
                out['by_index'].append(cr.get_case(i).name)
            except Exception as e:      # noqa
                out['by_index'].append(f"EXC:{type(e).__name__}")
        for i in (-1, -len(names)):
            if names:
                try:
                    out.setdefault('by_neg_index', {})[i] = cr.get_case(i).name
                except Exception as e:      # noqa
                    out.setdefault('by_neg_index', {})[i] = f"EXC:{type(e).__name__}"
    return out


def data_digest(d):
    """Canonical comparable form of one case's data."""
    def arr(x):
        if x is None:
            return None
        return {k: (np.asarray(v).shape, np.asarray(v).tobytes()) for k, v in sorted(x.items())}
    return (d['source'], d['success'], d['msg'], repr(d['abs_err']), repr(d['rel_err']),
            arr(d['inputs']), arr(d['outputs']), arr(d['residuals']), arr(d['derivs']))
