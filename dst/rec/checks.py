"""C17 / C18 / C19 on recsim + simdisk."""
import copy
import hashlib
import os
import shutil
import time

import numpy as np

from dst.core.driver import Check
from dst.core.shrink import drop_from_list
from dst.core.util import Log, Counter, reset_process_state, canon, scratch_dir, rng_for
from dst.simdisk import disk
from dst.world import build as B
from . import recsim as R

REAL = ['openmdao SqliteRecorder / RecordingManager / recording iteration stack', 'SqliteCaseReader / Case',
        'sqlite3 (C library, rollback journal)', 'Problem/Driver/System/Solver record_iteration', 'DOEDriver',
        'ScipyOptimizeDriver']
STUBS = ['user components (stub log)', 'clock (recording_manager.time)', 'disk system calls (LD_PRELOAD shim)',
         'sqlite PRNG seed (/dev/urandom redirected)', 'crash-image reconstruction']


def _same_to_ulps(a, b, n=4):
    """Equal (NaN == NaN) up to n units in the last place."""
    a = np.asarray(a, dtype=float)
    b = np.asarray(b, dtype=float)
    if a.shape != b.shape:
        return False
    nan = np.isnan(a) | np.isnan(b)
    if np.any(np.isnan(a) != np.isnan(b)):
        return False
    a, b = a[~nan], b[~nan]
    with np.errstate(invalid='ignore'):
        return bool(np.all((a == b) | (np.isfinite(a) & np.isfinite(b) &
                                      (np.abs(a - b) <= n * np.finfo(float).eps * np.maximum(np.abs(a), np.abs(b))))))


def workdir_for(plan, tag=''):
    base = scratch_dir('rec')
    if os.path.isdir('/dev/shm') and os.access('/dev/shm', os.W_OK) and not os.environ.get('VERIF_NO_SHM'):
        # crash images are written and re-read thousands of times: keep them in memory-backed scratch
        base = os.path.join('/dev/shm', 'verif-' + os.path.basename(os.path.dirname(base)) , 'rec')
        os.makedirs(base, exist_ok=True)
    # (the process id keeps two workers apart that execute plans with the same run_seed at the same time: two
    # pinned histories minimised from the same run did, and failed one run in a few)
    d = os.path.join(base, f"{plan.get('run_seed', 0):016x}-{os.getpid()}{tag}")
    shutil.rmtree(d, ignore_errors=True)
    os.makedirs(d)
    return d


def seed_file(workdir, seed):
    rs = np.random.default_rng(seed % (2 ** 32))
    path = os.path.join(os.path.dirname(workdir), os.path.basename(workdir) + '.urandom')
    with open(path, 'wb') as f:
        f.write(rs.bytes(4096))
    return path


class RecCheck(Check):
    level = 'exploration'
    engine = 'recsim'
    real = REAL
    stubs = STUBS
    shrink_budget = 120
    small = False

    def gen(self, rng, tier):
        plan = R.gen_rec_plan(rng, tier, small=self.small)
        if self.pid == 'C18':
            # thorough: every event prefix and every torn variant of every run
            plan['image_cap'] = 4000 if tier == 'thorough' else 200
        return plan

    def candidates(self, plan):
        yield from drop_from_list(plan, ['ops'])
        for i, r in enumerate(plan['recorders']):
            if len(plan['recorders']) > 1:
                c = copy.deepcopy(plan)
                del c['recorders'][i]
                yield c
            if len(r['attach']) > 1:
                for j in range(len(r['attach'])):
                    c = copy.deepcopy(plan)
                    del c['recorders'][i]['attach'][j]
                    yield c
        for t, o in plan['options'].items():
            for k in list(o):
                c = copy.deepcopy(plan)
                del c['options'][t][k]
                yield c
        if plan['driver']['kind'] != 'plain':
            c = copy.deepcopy(plan)
            c['driver'] = {'kind': 'plain'}
            yield c
        if plan['driver'].get('cases') and len(plan['driver']['cases']) > 1:
            for j in range(len(plan['driver']['cases'])):
                c = copy.deepcopy(plan)
                del c['driver']['cases'][j]
                yield c
        if plan.get('clock') and plan['clock'] != [1e-3]:
            c = copy.deepcopy(plan)
            c['clock'] = [1e-3]
            yield c
        w = plan['world']
        for g, s in w['solvers'].items():
            if s['nl'] not in ('runonce', 'nlbgs'):
                c = copy.deepcopy(plan)
                c['world']['solvers'][g]['nl'] = 'nlbgs'
                yield c
        for ci, comp in enumerate(w['comps']):
            for oi, o in enumerate(comp['outs']):
                if any(k in o for k in ('ref', 'ref0', 'res_ref')):
                    c = copy.deepcopy(plan)
                    for k in ('ref', 'ref0', 'res_ref'):
                        c['world']['comps'][ci]['outs'][oi].pop(k, None)
                    yield c

    def signature(self, plan, viol):
        return viol['inv'] + (':' + viol['ctx'] if viol.get('ctx') else '')


# =========================================================================== C18
class C18(RecCheck):
    pid = 'C18'
    level = 'fault_enumeration'
    engine = 'simdisk+recsim'
    small = True
    rule = ("plans = seeded recording runs (generated world, driver in {Driver, DOE list/full-factorial/uniform, "
            "SLSQP}, one SqliteRecorder attached to a seeded subset of problem/driver/systems/solvers with seeded "
            "options, run_model/run_driver/record ops with component faults); for each run the complete system-call "
            "trace on the recording directory is captured and the directory image after EVERY event prefix (process "
            "killed before event k) and every page-boundary cut of every multi-page write is reconstructed and opened "
            "with CaseReader; evaluations = crash images judged; distinct = images with distinct content hash; "
            "non-trivial = image differs from the complete file and from the empty start state")
    assumptions = ["'the process dies' = kill semantics: every completed system call survives in the page cache, nothing "
                   "later happened; a write can be cut only at a 4096-byte file-offset boundary",
                   "power-loss semantics (lost or reordered un-synced writes) are not judged",
                   "images before the recorder finished startup (final_setup) are opened and tallied but not judged",
                   "the replayed-prefix model is validated against real _exit(137) kills on a seeded sample of crash points "
                   "per run (byte comparison of the directory)",
                   "a lagging prefix (acknowledged case not yet visible) is measured, not judged: the statement asks for a prefix"]

    def budget(self, tier):
        if tier == 'thorough':
            return {'runs': 1200, 'time': 1500.0, 'run_cap': 900.0, 'selftest': 24}
        return {'runs': 32, 'time': 80.0, 'run_cap': 300.0, 'selftest': 2}

    def run(self, plan, keep=False):
        reset_process_state(plan.get('run_seed', 0))
        log = Log(keep)
        st, faults, probes = Counter(), Counter(), Counter()
        viol = []
        tier_cap = plan.get('image_cap', 200)
        wd = workdir_for(plan)
        sf = seed_file(wd, plan.get('run_seed', 0))
        rr = R.RecRun(plan, wd, log=None, use_disk=True)
        disk.begin(wd, sf)
        try:
            self._record(rr)
        finally:
            disk.end()
            rr.close()
        events = disk.trace()
        for f in rr.rt.fired:
            faults.inc(f['kind'] + ':' + f['method'])
        fname = plan['recorders'][0]['file']
        full = R.read_file(rr.files[fname])
        L = full['cases']
        digests = {n: R.data_digest(full['data'][n]) for n in L}
        log.ev('trace', len(events), [e[0] for e in events if e[0] != 'M'][:2000])
        log.ev('cases', L)
        st.inc('cases_recorded', len(L))
        st.inc('io_events', sum(1 for e in events if e[0] != 'M'))
        # --- enumerate crash images
        imgdir = wd + '.img'
        im = disk.Images(events, wd)
        started = False
        acked = []          # case names whose record call returned
        in_flight = None
        seen_hash = set()
        cand = []           # (event index, cut or None)
        for k, e in enumerate(events):
            if e[0] == 'M':
                continue
            cand.append((k, None))
            for cut in disk.Images.torn_cuts(e):
                cand.append((k, cut))
        # which crash points are judged: all of them when they fit the cap (200 quick, 4000 thorough: a run with more
        # took over 15 minutes under load and tripped the run cap);
        # otherwise a seeded stride sample, half of the budget reserved for sync/unlink boundaries
        # (the commit points of the journal protocol)
        take_set = None
        if len(cand) > tier_cap:
            prio = [c_ for c_ in cand if events[c_[0]][0] in ('S', 'U') and c_[1] is None]
            rest = [c_ for c_ in cand if not (events[c_[0]][0] in ('S', 'U') and c_[1] is None)]
            rs_ = rng_for(plan.get('run_seed', 0) ^ 0x1818)

            def sample(lst, n):
                if len(lst) <= n:
                    return list(lst)
                step = len(lst) / float(n)
                off_ = rs_.random() * step
                return [lst[min(len(lst) - 1, int(off_ + i * step))] for i in range(n)]
            chosen = sample(prio, tier_cap // 2)
            chosen += sample(rest, tier_cap - len(chosen))
            take_set = set(chosen)
            probes.inc('runs_with_sampled_crash_points')
        else:
            probes.inc('runs_with_all_crash_points')
        judged = 0
        pos = 0
        deep_every = 6 if len(L) <= 60 else 25
        for k, e in enumerate(events):
            if e[0] == 'M':
                m = e[4]
                if m == 'recorder-started':
                    started = True
                elif m.startswith('shadow:'):
                    in_flight = m.split(':', 2)[2]
                elif m.startswith('ack:'):
                    acked.append(m[4:])
                    in_flight = None
                continue
            variants = [None] + disk.Images.torn_cuts(e)
            for cut in variants:
                pos += 1
                if take_set is not None and (k, cut) not in take_set:
                    continue
                extra = None
                if cut is not None:
                    # image = everything before e, plus the first `cut` bytes of e
                    rel_ = im.rel(e[4])
                    saved = (rel_, bytearray(im.files[rel_]) if rel_ in im.files else None)
                    im.apply(e, cut=cut)
                content = hashlib.sha1(b''.join(k_.encode() + b'\0' + bytes(v) for k_, v in sorted(im.files.items()))).hexdigest()
                if content in seen_hash:
                    if cut is not None:
                        self._restore(im, saved)
                    continue
                seen_hash.add(content)
                im.dump(imgdir)
                if cut is not None:
                    self._restore(im, saved)
                    probes.inc('torn_images')
                # every image: opens, prefix, per-source views, the 3 newest cases in full; every 6th image,
                # every torn image and every image at a sync/unlink boundary: all cases in full
                deep = (judged % deep_every == 0) or ((cut is not None or e[0] in ('S', 'U')) and len(L) <= 60)
                ok = self._judge(imgdir, fname, L, full, digests, started, acked, k, e, cut, viol, st, probes,
                                 tail=None if deep else 3)
                judged += 1
                st.inc('images_deep' if deep else 'images_light')
                if not ok:
                    break
            if viol:
                break
            im.apply(e)
        st.inc('images', judged)
        st.inc('images_possible', len(cand))
        # --- the simulator's own model: replayed prefix == real kill
        if not viol:
            self._kill_selftest(plan, events, wd, viol, st, probes)
        shutil.rmtree(wd, ignore_errors=True)
        shutil.rmtree(imgdir, ignore_errors=True)
        try:
            os.unlink(sf)
        except OSError:
            pass
        res = {'viol': viol, 'digest': log.digest(), 'stats': st, 'faults': faults, 'probes': probes,
               'shape': f"{plan['driver']['kind']}-{len(plan['recorders'][0]['attach'])}att-{min(len(L) // 10, 9)}",
               'nontrivial': judged > 2, 'sim_time': rr.clock.total if hasattr(rr, 'clock') else 0.0,
               'evals': judged, 'distinct_images': len(seen_hash)}
        if keep:
            res['events'] = log.events
        return res

    @staticmethod
    def _restore(im, saved):
        rel_, buf = saved
        if buf is None:
            im.files.pop(rel_, None)
        else:
            im.files[rel_] = buf

    def _record(self, rr):
        rr.build()
        rec = list(rr.recorders.values())[0]
        for nm in ('record_iteration_driver', 'record_iteration_problem', 'record_iteration_system',
                   'record_iteration_solver', 'record_derivatives_driver'):
            orig = getattr(rec, nm)

            def mk(orig=orig, nm=nm):
                def w(requester, data, metadata, *a, **k):
                    r = orig(requester, data, metadata, *a, **k)
                    if nm.startswith('record_iteration'):
                        it = requester._recording_iter
                        name = metadata['name'] if nm.endswith('problem') else it.get_formatted_iteration_coordinate()
                        disk.mark('ack:' + name)
                    else:
                        disk.mark('ackd:')
                    return r
                return w
            setattr(rec, nm, mk())
        rr.p.final_setup()
        disk.mark('recorder-started')
        for op in rr.plan['ops']:
            rr.do(op)
        rr.p.cleanup()
        disk.mark('cleanup-done')

    def _judge(self, imgdir, fname, L, full, digests, started, acked, k, e, cut, viol, st, probes, tail=None):
        path = os.path.join(imgdir, fname)
        where = f"crash before event #{k} ({e[0]} {os.path.basename(e[4])} off={e[2]} len={e[3]}" + \
                (f", write cut after {cut} bytes" if cut is not None else '') + ')'
        if not os.path.exists(path):
            st.inc('images_without_db_file')
            if started:
                viol.append({'inv': 'I-18-open', 'msg': f"{where}: database file missing after the recorder started"})
                return False
            return True
        t0 = time.perf_counter()
        try:
            got = R.read_file(path, tail=tail)
        except Exception as ex:      # noqa
            if not started:
                st.inc('prestart_images_unreadable')
                return True
            viol.append({'inv': 'I-18-open', 'msg': f"{where}: CaseReader failed: {type(ex).__name__}: {str(ex)[:200]}",
                         'ctx': type(ex).__name__})
            return False
        dt = time.perf_counter() - t0
        if not started:
            st.inc('prestart_images_readable')
            return True
        if dt > 20.0:
            viol.append({'inv': 'I-18-time', 'msg': f"{where}: reading the image took {dt:.1f}s"})
            return False
        names = got['cases']
        if names != L[:len(names)]:
            viol.append({'inv': 'I-18-prefix', 'msg': f"{where}: cases {names[-3:]} (n={len(names)}) are not a prefix of the "
                         f"complete run's {L[:len(names) + 1][-3:]} (n={len(L)})"})
            return False
        pset = set(names)
        for src, lst in got['sources'].items():
            want = [n for n in full['sources'].get(src, []) if n in pset]
            if lst != want:
                viol.append({'inv': 'I-18-source-view', 'msg': f"{where}: list_cases({src!r}) = {lst[-3:]} (n={len(lst)}) is "
                             f"not the restriction of the prefix ({want[-3:]}, n={len(want)})"})
                return False
        for n in names:
            if n not in got['data']:
                continue
            d = R.data_digest(got['data'][n])
            if d != digests[n]:
                # a driver case's derivatives are written by a later transaction: allowed to be missing
                # only if that record had not been acknowledged yet
                d2 = d[:-1]
                if d2 == digests[n][:-1] and got['data'][n]['derivs'] is None:
                    probes.inc('case_visible_before_its_derivatives')
                    continue
                viol.append({'inv': 'I-18-case-data', 'msg': f"{where}: case {n!r} differs from the same case in the "
                             f"complete run"})
                return False
        if got['by_index'] != names:
            viol.append({'inv': 'I-18-index', 'msg': f"{where}: get_case(i) gives {got['by_index'][-3:]} but list_cases "
                         f"gives {names[-3:]}", 'ctx': 'index'})
            return False
        lag = len([a for a in acked if a not in pset])
        if lag:
            probes.inc('acknowledged_case_not_yet_visible', lag)
        if len(names) < len(L):
            probes.inc('images_with_strict_prefix')
        st.inc('cases_read_from_images', len(names))
        return True

    def _kill_selftest(self, plan, events, wd, viol, st, probes):
        """Fork a child that really dies at event k; its directory must equal the replayed prefix."""
        ks = [i for i, e in enumerate(events) if e[0] != 'M']
        if not ks:
            return
        rs = rng_for(plan.get('run_seed', 0) ^ 0x5151)
        picks = sorted(set(rs.choice(ks) for _ in range(2)))
        for k in picks:
            e = events[k]
            evno = e[1]
            cut = -1
            cuts = disk.Images.torn_cuts(e)
            if cuts and rs.random() < 0.5:
                cut = rs.choice(cuts)
            kd = wd + '.kill'
            shutil.rmtree(kd, ignore_errors=True)
            os.makedirs(kd)
            pid = os.fork()
            if pid == 0:
                try:
                    reset_process_state(plan.get('run_seed', 0))
                    sf = seed_file(kd, plan.get('run_seed', 0))
                    rr = R.RecRun(plan, kd, use_disk=True)
                    disk.begin(kd, sf)
                    disk.arm(evno, cut)
                    self._record(rr)
                finally:
                    os._exit(3)
            _, status = os.waitpid(pid, 0)
            code = os.waitstatus_to_exitcode(status)
            if code != 137:
                viol.append({'inv': 'I-18-harness', 'msg': f"kill self-test: child exit code {code} at event {evno}"})
                return
            im = disk.Images(events, wd)
            for e2 in events[:k]:
                if e2[0] != 'M':
                    im.apply(e2)
            if cut > 0:
                im.apply(e, cut=cut)
            real = {}
            for fn in os.listdir(kd):
                with open(os.path.join(kd, fn), 'rb') as f:
                    real[fn] = f.read()
            model = {k_: bytes(v) for k_, v in im.files.items() if '/' not in k_}
            if real != model:
                diff = sorted(set(real) ^ set(model)) or [n for n in real if real[n] != model.get(n)]
                viol.append({'inv': 'I-18-harness', 'msg': f"kill self-test at event {evno} (cut {cut}): real directory "
                             f"differs from the replayed prefix in {diff}"})
                return
            st.inc('real_kills_matching_replay')
            shutil.rmtree(kd, ignore_errors=True)
            try:
                os.unlink(kd + '.urandom')
            except OSError:
                pass

    def extra_evidence(self, agg):
        return {}


CHECKS = {'C18': C18()}


# =========================================================================== C17
DEFAULTS = {
    'problem': {'record_desvars': True, 'record_objectives': True, 'record_constraints': True,
                'record_responses': False, 'record_inputs': False, 'record_outputs': True, 'record_residuals': False,
                'includes': ['*'], 'excludes': []},
    'driver': {'record_desvars': True, 'record_objectives': True, 'record_constraints': True,
               'record_responses': False, 'record_inputs': True, 'record_outputs': True, 'record_residuals': False,
               'includes': [], 'excludes': []},
    'sys': {'record_inputs': True, 'record_outputs': True, 'record_residuals': True, 'includes': ['*'], 'excludes': []},
    'nl': {'record_inputs': True, 'record_outputs': True, 'record_solver_residuals': False, 'includes': ['*'],
           'excludes': [], 'record_abs_error': True, 'record_rel_error': True},
}


def _sel(name, incl, excl):
    import fnmatch
    if any(fnmatch.fnmatchcase(name, e) for e in excl):
        return False
    return any(fnmatch.fnmatchcase(name, i) for i in incl)


def selection_spec(world, plan, target, problem, options=None):
    """My own statement of the documented selection semantics -> (inputs, outputs, residuals) as sets of
    absolute names.  `problem` is used only to learn the auto-IVC output names OpenMDAO invented."""
    kind = target.split(':')[0]
    o = dict(DEFAULTS[kind])
    o.update(plan['options'].get(target, {}) if options is None else options)
    incl, excl = o['includes'], o['excludes']
    own = B.owner_of(world)
    model = problem.model
    conn = model._conn_global_abs_in2out
    path = target.split(':', 1)[1] if ':' in target else ''
    in_scope = lambda c: (path == '' or c['group'] == path or c['group'].startswith(path + '.')) \
        if path in world['groups'] else ((c['group'] + '.' if c['group'] else '') + c['name'] == path)
    comps = [c for c in world['comps'] if in_scope(c)]
    outs_abs = {B.abs_name(world, o_['name']): o_['name'] for c in comps for o_ in c['outs']}
    ins_abs = {B.abs_name(world, i['name']): i['name'] for c in comps for i in c['ins']}
    auto_outs = {}      # auto-IVC output (absolute name) -> its promoted name = the promoted name of the input it feeds
    if path == '':
        for c in world['comps']:
            for i in c['ins']:
                if i.get('via') == 'auto':
                    auto_outs[conn[B.abs_name(world, i['name'])]] = B.rel_name(world, i['name'], '')
    ins, outs, res = set(), set(), set()
    if kind == 'sys':
        at = path if path in world['groups'] else None

        def prom(var):
            if at is None:
                return var      # inside a component the promoted name is the variable name
            return B.rel_name(world, var, at)
        if o['record_inputs']:
            ins = {a for a in ins_abs if _sel(a, incl, excl)}
        sel_out = {a for a, v in outs_abs.items() if _sel(prom(v), incl, excl)}
        if path == '':
            sel_out |= {a for a, pn in auto_outs.items() if _sel(pn, incl, excl)}
        if o['record_outputs']:
            outs = set(sel_out)
        if o['record_residuals']:
            res = set(sel_out)
    elif kind == 'nl':
        pre = path + '.' if path else ''
        incl2 = [pre + i for i in incl]
        excl2 = [pre + e for e in excl]
        allouts = set(outs_abs) | (set(auto_outs) if path == '' else set())
        if o['record_inputs']:
            ins = {a for a in ins_abs if _sel(a, incl2, excl2)}
        if o['record_outputs']:
            outs = {a for a in allouts if _sel(a, incl2, excl2)}
        if o['record_solver_residuals']:
            res = {a for a in allouts if _sel(a, incl2, excl2)}
    else:
        all_outs = {B.abs_name(world, o_['name']): o_['name'] for c in world['comps'] for o_ in c['outs']}
        all_ins = {B.abs_name(world, i['name']): i for c in world['comps'] for i in c['ins']}

        def src_abs(var):
            c, io_, v = own[var]
            if io_ == 'out':
                return B.abs_name(world, var)
            return conn[B.abs_name(world, var)]
        sel = {a for a, v in all_outs.items() if _sel(B.rel_name(world, v, ''), incl, excl)}
        sel |= {a for a, pn in auto_outs.items() if _sel(pn, incl, excl)}
        if o['record_residuals']:
            res |= sel
        # record_outputs gates the whole 'outputs' kind (design variables and responses are outputs)
        if o['record_outputs']:
            outs |= sel
            if o['record_desvars']:
                outs |= {src_abs(d['name']) for d in world['dvs']}
            if o['record_objectives'] or o['record_responses']:
                outs |= {src_abs(r['name']) for r in world['resps'] if r['type'] == 'obj'}
            if o['record_constraints'] or o['record_responses']:
                outs |= {src_abs(r['name']) for r in world['resps'] if r['type'] == 'con'}
        if o['record_inputs']:
            ins = {a for a in all_ins if _sel(a, incl, excl)}
            # a promoted input name that matches also selects its source
            if o['record_outputs']:
                for a, i in all_ins.items():
                    if _sel(B.rel_name(world, i['name'], ''), incl, excl):
                        outs.add(conn[a])
    return ins, outs, res


def event_target(e):
    if e['kind'] == 'problem':
        return 'problem'
    if e['kind'] == 'driver':
        return 'driver'
    if e['kind'] == 'system':
        return 'sys:' + e['path']
    return 'nl:' + e['path']


def source_name(target):
    if target in ('problem', 'driver'):
        return target
    kind, path = target.split(':', 1)
    base = 'root' + ('.' + path if path else '')
    return base if kind == 'sys' else base + '.nonlinear_solver'


class C17(RecCheck):
    pid = 'C17'
    rule = ("plans = generated models x drivers {Driver, DOE list/full-factorial/uniform, SLSQP} x one or two "
            "SqliteRecorders attached to seeded subsets of problem/driver/systems/nonlinear solvers with seeded "
            "includes/excludes/record_* options x histories of set_val/run_model/run_driver/record with component "
            "faults and a seeded clock (stalls, backward and huge jumps); a shadow in-memory recorder attached first "
            "is the reference; distinct = event-log digests; non-trivial = at least one case with a non-default "
            "option pattern was compared and at least one source has a case with >= 10 iterations at some level")
    assumptions = ["case names are unique (seeded unique case_prefix per run, as the documentation asks of the user)",
                   "system/solver cases hold the requester's vectors as they are at that instant (solver-scaled in scaled "
                   "worlds); problem/driver cases hold physical values -- see DESIGN 5.1",
                   "the selection spec is my own reading of the documented option semantics (40 lines), evaluated from the plan",
                   "descendants are computed by tuple-prefix on the iteration stacks captured by the shadow recorder"]

    def budget(self, tier):
        if tier == 'thorough':
            return {'runs': 30000, 'time': 1200.0, 'run_cap': 300.0, 'selftest': 100}
        return {'runs': 1200, 'time': 60.0, 'run_cap': 300.0, 'selftest': 12}

    def run(self, plan, keep=False):
        import contextlib, io
        reset_process_state(plan.get('run_seed', 0))
        log = Log(keep)
        st, faults, probes = Counter(), Counter(), Counter()
        viol = []
        wd = workdir_for(plan)
        rr = R.RecRun(plan, wd)
        try:
            with contextlib.redirect_stdout(io.StringIO()):
                rr.run_all()
            for f in rr.rt.fired:
                faults.inc(f['kind'] + ':' + f['method'])
            ev = rr.shadow.events
            log.ev('shadow', [(e['kind'], e['path'], e['name']) for e in ev])
            st.inc('cases', len(ev))
            for r in plan['recorders']:
                self._judge_file(plan, rr, r, ev, viol, st, probes, log)
                if viol:
                    break
        finally:
            rr.close()
            shutil.rmtree(wd, ignore_errors=True)
        nontriv = probes.get('cases_with_custom_options', 0) > 0
        res = {'viol': viol, 'digest': log.digest(), 'stats': st, 'faults': faults, 'probes': probes,
               'shape': f"{plan['driver']['kind']}-{len(plan['recorders'])}f-" +
                        '/'.join(sorted({t.split(':')[0] for r in plan['recorders'] for t in r['attach']})),
               'nontrivial': nontriv, 'sim_time': rr.clock.total if hasattr(rr, 'clock') else 0.0}
        if keep:
            res['events'] = log.events
        return res

    def _judge_file(self, plan, rr, r, ev, viol, st, probes, log):
        world = rr.world
        mine = [e for e in ev if event_target(e) in r['attach']]
        got = R.read_file(rr.files[r['file']])
        exp_names = [e['name'] for e in mine]
        if len(set(exp_names)) != len(exp_names):
            probes.inc('duplicate_case_names_precondition_void')
            return
        if got['cases'] != exp_names:
            k = next((i for i, (a, b) in enumerate(zip(got['cases'], exp_names)) if a != b),
                     min(len(got['cases']), len(exp_names)))
            viol.append({'inv': 'I-17-order', 'msg': f"{r['file']}: list_cases() differs from execution order at {k}: "
                         f"reader {got['cases'][k:k + 2]} (n={len(got['cases'])}) vs recorded {exp_names[k:k + 2]} "
                         f"(n={len(exp_names)})"})
            return
        if got['by_index'] != exp_names:
            viol.append({'inv': 'I-17-index', 'msg': f"{r['file']}: get_case(i) sequence {got['by_index'][:4]} != "
                         f"{exp_names[:4]}"})
            return
        for i, nm in got.get('by_neg_index', {}).items():
            if nm != exp_names[i]:
                viol.append({'inv': 'I-17-index', 'msg': f"{r['file']}: get_case({i}) = {nm!r}, expected {exp_names[i]!r}"})
                return
        # per source
        by_target = {}
        for e in mine:
            by_target.setdefault(event_target(e), []).append(e)
        exp_sources = {source_name(t) for t in by_target}
        if set(got['sources']) != exp_sources:
            viol.append({'inv': 'I-17-sources', 'msg': f"{r['file']}: list_sources {sorted(got['sources'])} vs "
                         f"{sorted(exp_sources)}"})
            return

        def desc(parent):
            ps, pp = parent['stack'], parent['prefix']
            out = []
            for e in mine:
                if e is parent:
                    break
                if e['kind'] == 'problem':
                    continue
                if e['prefix'] == pp and len(e['stack']) > len(ps) and e['stack'][:len(ps)] == ps:
                    out.append(e['name'])
            return out + [parent['name']]
        for t, evs in by_target.items():
            src = source_name(t)
            if got['sources'][src] != [e['name'] for e in evs]:
                missing = [e['name'] for e in evs if e['name'] not in got['sources'][src]]
                extra = [n for n in got['sources'][src] if n not in {e['name'] for e in evs}]
                ctx = None
                byname = {e['name']: e for e in evs}

                def nested(n):
                    stk = byname[n]['stack']
                    return len(stk) >= 2 and '._solve_nonlinear' not in stk[-2][0] and stk[-2][0] != 'Driver' \
                        and '._solve_nonlinear' not in stk[-1][0]
                if missing and not extra and all(nested(n) for n in missing):
                    ctx = 'nested-solver-recording-missing-from-source-listing'
                viol.append({'inv': 'I-17-source-cases', 'msg': f"{r['file']}: list_cases({src!r}, recurse=False) = "
                             f"{got['sources'][src][:3]}.. vs {[e['name'] for e in evs][:3]}..; missing {missing[:2]} "
                             f"extra {extra[:2]}", 'ctx': ctx})
                if ctx is None:
                    return
                continue
            if src == 'problem':
                continue
            expf = []
            for e in evs:
                expf += desc(e)
            if got['flat'][src] != expf:
                extra = [x for x in got['flat'][src] if x not in expf][:2]
                missing = [x for x in expf if x not in got['flat'][src]][:2]
                viol.append({'inv': 'I-17-descendants', 'msg': f"{r['file']}: list_cases({src!r}, recurse=True, flat=True) "
                             f"has {len(got['flat'][src])} entries, tuple-prefix descendants give {len(expf)}; "
                             f"extra {extra} missing {missing}"})
                return
            if any(len(e['stack']) and max(i for _, i in e['stack']) >= 10 for e in evs):
                probes.inc('source_with_10plus_iterations')
        # content
        for e in mine:
            t = event_target(e)
            d = got['data'][e['name']]
            ins, outs, res = selection_spec(world, plan, t, rr.p, options=e.get('options'))
            custom = bool(plan['options'].get(t)) or bool(e.get('options'))
            if e.get('options') is not None and e['options'] != plan['options'].get(t, {}):
                probes.inc('cases_recorded_after_recording_options_changed')
            for kind, exp, key in (('inputs', ins, 'input'), ('outputs', outs, 'output'), ('residuals', res, 'residual')):
                gk = set(d[kind].keys()) if d[kind] is not None else set()
                if gk != exp:
                    viol.append({'inv': 'I-17-selection', 'msg': f"{r['file']} case {e['name']!r} ({t}, options "
                                 f"{plan['options'].get(t, {})}): recorded {kind} {sorted(gk)} but the options select "
                                 f"{sorted(exp)}", 'ctx': t.split(':')[0] + ':' + kind})
                    return
                handed = e['data'].get(key) or {}
                for n in gk:
                    gv = np.asarray(d[kind][n])
                    hv = np.asarray(handed.get(n)) if n in handed else None
                    if hv is None or gv.size != hv.size or not np.array_equal(gv.ravel(), hv.ravel(), equal_nan=True):
                        viol.append({'inv': 'I-17-value', 'msg': f"{r['file']} case {e['name']!r}: {kind}[{n}] read back as "
                                     f"{gv.ravel().tolist()} but the requester handed {None if hv is None else hv.ravel().tolist()}",
                                     'ctx': 'handed'})
                        return
                    sv = e['snap'][key].get(n)
                    if sv is not None and not np.array_equal(gv.ravel(), np.asarray(sv).ravel(), equal_nan=True):
                        viol.append({'inv': 'I-17-value', 'msg': f"{r['file']} case {e['name']!r} ({t}): {kind}[{n}] = "
                                     f"{gv.ravel().tolist()} but the model's vector held {np.asarray(sv).ravel().tolist()} when "
                                     f"the case was recorded", 'ctx': 'snapshot'})
                        return
            if e['kind'] == 'solver':
                for fld, key in (('abs_err', 'abs'), ('rel_err', 'rel')):
                    hv = e['data'].get(key)
                    gv = d[fld]
                    if hv is not None and gv is None and np.isnan(float(hv)):
                        continue        # sqlite stores a NaN REAL as NULL
                    if (hv is None) != (gv is None) or (hv is not None and not (
                            float(hv) == float(gv) or (np.isnan(float(hv)) and np.isnan(float(gv))))):
                        viol.append({'inv': 'I-17-value', 'msg': f"case {e['name']!r}: {fld} read back as {gv!r}, handed "
                                     f"{hv!r}", 'ctx': fld})
                        return
            if custom:
                probes.inc('cases_with_custom_options')
            st.inc('cases_compared')


CHECKS['C17'] = C17()


# =========================================================================== C19
class C19(RecCheck):
    pid = 'C19'
    rule = ("plans = recsim plans (generated model, driver, recorders on problem/driver/systems, histories with "
            "component faults); after the recorded run a seeded selection of problem, driver and system cases is loaded "
            "with Problem.load_case into a fresh Problem built from the same plan whose state was scrambled by seeded "
            "set_val calls; get_val must return every recorded input and output, and for cases recorded at a "
            "fault-free converged point run_model must reproduce the recorded outputs; distinct = event-log digests; "
            "non-trivial = at least one case was loaded into a scrambled problem and re-run")
    assumptions = ["re-run half only for problem/driver cases (physical values) and system cases of worlds without solver "
                   "scaling, recorded at a point where no fault fired in the recording op and the case holds every "
                   "independent variable",
                   "system/solver cases of solver-scaled worlds hold scaled numbers by design: only the get_val half applies",
                   "get_val comparison is exact; re-run comparison to 1e-7 relative (solver tolerance)"]

    def budget(self, tier):
        if tier == 'thorough':
            return {'runs': 20000, 'time': 1200.0, 'run_cap': 300.0, 'selftest': 100}
        return {'runs': 700, 'time': 60.0, 'run_cap': 300.0, 'selftest': 12}

    def gen(self, rng, tier):
        plan = R.gen_rec_plan(rng, tier, small=False, extra_k={'prefix_sibling': 0.4, 'default_units': 0.5})
        # a component that overrides System.load_case (documented hook) in a third of the plans, preferably the
        # one whose name is a string prefix of a sibling's
        w = plan['world']
        if rng.random() < 0.35:
            stubs_ = [c['name'] for c in w['comps'] if c['kind'] != 'ivc']
            plan['world']['load_case_override'] = w['prefix_pair'][0] if w.get('prefix_pair') and rng.random() < 0.8 \
                else rng.choice(stubs_)
        # make sure something physical is recorded
        for r in plan['recorders'][:1]:
            for t in ('problem', 'driver'):
                if t not in r['attach'] and rng.random() < 0.7:
                    r['attach'].append(t)
                    plan['options'].setdefault(t, R.gen_options(rng, plan['world'], t))
        plan['load'] = {'picks': [rng.random() for _ in range(6)],
                        'scramble': [spec_dyadic(rng) for _ in range(12)]}
        return plan

    def run(self, plan, keep=False):
        import contextlib, io
        import openmdao.api as om
        reset_process_state(plan.get('run_seed', 0))
        log = Log(keep)
        st, faults, probes = Counter(), Counter(), Counter()
        viol = []
        wd = workdir_for(plan)
        rr = R.RecRun(plan, wd)
        try:
            with contextlib.redirect_stdout(io.StringIO()):
                rr.run_all()
            for f in rr.rt.fired:
                faults.inc(f['kind'] + ':' + f['method'])
            ev = rr.shadow.events
            world = rr.world
            scaled = any(any(k in o for k in ('ref', 'ref0', 'res_ref')) for c in world['comps'] for o in c['outs'])
            fname = plan['recorders'][0]['file']
            mine = [e for e in ev if event_target(e) in plan['recorders'][0]['attach']]
            if len({e['name'] for e in mine}) != len(mine) or not mine:
                return {'viol': [], 'digest': log.digest(), 'stats': st, 'faults': faults, 'probes': probes,
                        'shape': 'void', 'nontrivial': False, 'sim_time': 0.0}
            cr = om.CaseReader(rr.files[fname])
            # candidate cases: problem, driver, root-system
            cands = [e for e in mine if e['kind'] in ('problem', 'driver') or (e['kind'] == 'system' and e['path'] == '')]
            picks = []
            for x in plan['load']['picks']:
                if cands:
                    picks.append(cands[int(x * len(cands)) % len(cands)])
            indep = []
            for c in world['comps']:
                if c['kind'] == 'ivc':
                    indep += [B.abs_name(world, o['name']) for o in c['outs']]
                for i in c['ins']:
                    if i.get('via') == 'auto':
                        indep.append(rr.p.model._conn_global_abs_in2out[B.abs_name(world, i['name'])])
            for e in picks[:3]:
                case = cr.get_case(e['name'])
                log.ev('load', e['kind'], e['name'])
                rt2 = B.Runtime(world)
                p2, groups2 = B.build(world, rt2, name='l', tol={'atol': 1e-10, 'rtol': 1e-12, 'maxiter': 60})
                with contextlib.redirect_stdout(io.StringIO()):
                    p2.setup(mode=plan['knobs'].get('mode', 'auto'))
                    p2.final_setup()
                    # scramble
                    k = 0
                    for c in world['comps']:
                        for v in c['outs'] + [i for i in c['ins'] if i.get('via') == 'auto']:
                            p2.set_val(B.abs_name(world, v['name']),
                                       np.full(v['shape'], plan['load']['scramble'][k % len(plan['load']['scramble'])]))
                            k += 1
                    try:
                        p2.load_case(case)
                    except Exception as ex:      # noqa
                        viol.append({'inv': 'I-19-exception', 'msg': f"load_case({e['name']!r}) raised "
                                     f"{type(ex).__name__}: {str(ex)[:300]}", 'ctx': type(ex).__name__})
                        break
                st.inc('cases_loaded')
                ok = True
                for kind in ('inputs', 'outputs'):
                    vals = getattr(case, kind)
                    if vals is None:
                        continue
                    if kind == 'inputs' and (e.get('op_faulted') or not e.get('at_converged')
                                             or plan['driver']['kind'] == 'slsqp'):
                        # a case taken while an op was failing can hold inputs that are inconsistent with
                        # the recorded sources; load_case writes sources last, so only outputs are judged
                        probes.inc('inputs_of_faulted_case_not_judged')
                        continue
                    ov = world.get('load_case_override')
                    ov_path = None
                    if ov:
                        oc = B.comp_by_name(world)[ov]
                        ov_path = (oc['group'] + '.' if oc['group'] else '') + oc['name'] + '.'
                    for absn in vals.absolute_names():
                        if kind == 'inputs' and ov_path and absn.startswith(ov_path):
                            # inputs of the component that overrides load_case are that hook's business (ours leaves
                            # connected inputs to the next transfer)
                            probes.inc('inputs_of_overriding_component_not_judged')
                            continue
                        rec = np.asarray(vals[absn])
                        got = np.asarray(p2.get_val(absn, from_src=False) if kind == 'inputs' else p2.get_val(absn))
                        # "the recorded value": load_case writes an automatic source in the source's units and the
                        # framework converts it for the input again (cm -> km: 400000 * 1e-5), which may differ
                        # from the transfer's conversion in the last place -- 4 ulp are allowed, nothing more
                        if got.size != rec.size or not _same_to_ulps(got.ravel(), rec.ravel()):
                            viol.append({'inv': 'I-19-getval', 'msg': f"after load_case({e['name']!r}) get_val({absn!r}) = "
                                         f"{got.ravel().tolist()} but the case recorded {rec.ravel().tolist()}",
                                         'ctx': kind})
                            ok = False
                            break
                    if not ok:
                        break
                if not ok:
                    break
                probes.inc('loaded_into_scrambled_problem')
                # ---- re-run half
                outs = case.outputs
                recorded = set(outs.absolute_names()) if outs is not None else set()
                physical = e['kind'] in ('problem', 'driver') or not scaled
                clean_point = e.get('success', 1) in (1, True) and e.get('at_converged') and not e.get('op_faulted') \
                    and plan['driver']['kind'] != 'slsqp'    # an optimizer also evaluates/records at points it abandons
                if physical and clean_point and set(indep) <= recorded and np.all(
                        [np.all(np.isfinite(np.asarray(outs[n]))) for n in recorded]):
                    with contextlib.redirect_stdout(io.StringIO()):
                        try:
                            p2.run_model()
                        except Exception as ex:      # noqa
                            probes.inc('rerun_raised')
                            continue
                    st.inc('reruns')
                    for absn in recorded:
                        rec = np.asarray(outs[absn]).ravel()
                        got = np.asarray(p2.get_val(absn)).ravel()
                        d = np.abs(got - rec).max() / (np.abs(rec).max() + 1.0) if rec.size else 0.0
                        if not d <= 1e-7:
                            viol.append({'inv': 'I-19-rerun', 'msg': f"load_case({e['name']!r}) + run_model: output {absn} = "
                                         f"{got.tolist()} but the case recorded {rec.tolist()} (rel diff {d:.3g})"})
                            ok = False
                            break
                    if not ok:
                        break
                    probes.inc('rerun_reproduced_recorded_outputs')
        finally:
            rr.close()
            shutil.rmtree(wd, ignore_errors=True)
        res = {'viol': viol, 'digest': log.digest(), 'stats': st, 'faults': faults, 'probes': probes,
               'shape': f"{plan['driver']['kind']}-{st.get('cases_loaded', 0)}-{st.get('reruns', 0)}",
               'nontrivial': st.get('reruns', 0) > 0, 'sim_time': 0.0}
        if keep:
            res['events'] = log.events
        return res

    @staticmethod
    def _faulted_near(rr, e):
        """True if any fault fired during the recording run (conservative: such runs only get the get_val half)."""
        return bool(rr.rt.fired) or bool(rr.raised)


def spec_dyadic(rng):
    from dst.core.util import dyadic
    return dyadic(rng, -4, 4, 2)


CHECKS['C19'] = C19()
