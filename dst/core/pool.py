"""A small fork pool: the parent has imported everything; W children each execute a
strided slice of run indices and stream JSON results back over a pipe.

A run's result is a pure function of (run seed, code); the stride only decides who
computes it.  Every run has a wall-clock cap (SIGALRM inside the worker) and the batch has
one in the parent; a capped or dead run is a harness error, never a pass or violation.
"""
import faulthandler
import gc
import json
import multiprocessing
import os
import select
import signal
import sys
import time
import traceback


class RunTimeout(BaseException):
    pass


def _alarm(signum, frame):
    raise RunTimeout()


def _take(indices, ctr):
    """Work queue: the next unclaimed run index (who computes a run never changes its result)."""
    while True:
        with ctr.get_lock():
            k = ctr.value
            ctr.value += 1
        if k >= len(indices):
            return
        yield indices[k]


def _worker(wid, nworkers, indices, fn, wfd, run_cap, batch_deadline, ctr):
    out = os.fdopen(wfd, 'w', buffering=1 << 16)
    signal.signal(signal.SIGALRM, _alarm)
    faulthandler.enable()
    try:
        for i in _take(indices, ctr):
            if time.monotonic() > batch_deadline:
                out.write(json.dumps({'i': i, 'skipped': True}) + '\n')
                continue
            signal.setitimer(signal.ITIMER_REAL, run_cap)
            try:
                res = fn(i)
                signal.setitimer(signal.ITIMER_REAL, 0)
            except RunTimeout:
                res = {'harness_error': f'run exceeded {run_cap}s wall cap'}
            except BaseException as e:  # noqa
                signal.setitimer(signal.ITIMER_REAL, 0)
                res = {'harness_error': ''.join(traceback.format_exception(e))[-4000:]}
            res['i'] = i
            out.write(json.dumps(res, default=repr) + '\n')
        out.flush()
    finally:
        try:
            out.flush()
        except Exception:
            pass
        os._exit(0)


def run_batch(indices, fn, nworkers=None, run_cap=60.0, batch_cap=3600.0):
    """Run fn(i) for every i in indices in forked workers.  Returns {i: result}."""
    indices = list(indices)
    if not indices:
        return {}
    nworkers = max(1, min(nworkers or os.cpu_count() or 1, len(indices)))
    deadline = time.monotonic() + batch_cap
    sys.stdout.flush()
    sys.stderr.flush()
    gc.collect()
    gc.freeze()      # keep the parent's heap out of the children's GC passes (no copy-on-write storms)
    kids = {}
    ctr = multiprocessing.get_context('fork').Value('l', 0)
    for w in range(nworkers):
        r, wfd = os.pipe()
        pid = os.fork()
        if pid == 0:
            os.close(r)
            for rr in [k[0] for k in kids.values()]:
                try:
                    os.close(rr)
                except OSError:
                    pass
            _worker(w, nworkers, indices, fn, wfd, run_cap, deadline, ctr)
            os._exit(0)
        os.close(wfd)
        os.set_blocking(r, False)
        kids[r] = [r, pid, b'']
    results = {}
    hard_deadline = deadline + run_cap + 30
    open_fds = set(kids)
    while open_fds:
        left = hard_deadline - time.monotonic()
        if left <= 0:
            break
        ready, _, _ = select.select(list(open_fds), [], [], min(left, 5.0))
        for r in ready:
            try:
                chunk = os.read(r, 1 << 20)
            except BlockingIOError:
                continue
            if not chunk:
                open_fds.discard(r)
                os.close(r)
                continue
            k = kids[r]
            k[2] += chunk
            *lines, k[2] = k[2].split(b'\n')
            for ln in lines:
                if ln:
                    d = json.loads(ln)
                    results[d['i']] = d
    for r, (fd, pid, buf) in kids.items():
        if r in open_fds:
            try:
                os.kill(pid, signal.SIGKILL)
            except OSError:
                pass
            os.close(r)
        try:
            _, status = os.waitpid(pid, 0)
        except ChildProcessError:
            status = 0
    for i in indices:
        if i not in results:
            results[i] = {'i': i, 'harness_error': 'worker died or batch cap hit before this run reported'}
    return results


def run_isolated(fn, arg, cap=120.0):
    """Run fn(arg) in one fresh fork; returns its result dict."""
    return run_batch([0], lambda _i: fn(arg), nworkers=1, run_cap=cap, batch_cap=cap + 5)[0]
