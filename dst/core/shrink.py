"""Delta debugging over plans.

The property module supplies `candidates(plan)` yielding strictly simpler, well-formed
plans (drop op chunks, drop faults, drop entities, simplify arguments).  A candidate is
kept only if executing it still yields a violation of the same class (invariant id).
"""
import copy


def list_chunks(n):
    """Index sets to delete from a list of length n: halves, quarters, ..., singles."""
    size = n // 2
    seen = set()
    while size >= 1:
        for start in range(0, n, size):
            t = (start, min(n, start + size))
            if t not in seen and not (t[0] == 0 and t[1] == n):
                seen.add(t)
                yield t
        size //= 2
    if n == 1:
        yield (0, 1)


def drop_from_list(plan, path):
    """Yield copies of plan with chunks of the list at `path` removed."""
    lst = plan
    for k in path:
        lst = lst[k]
    n = len(lst)
    for a, b in list_chunks(n):
        c = copy.deepcopy(plan)
        tgt = c
        for k in path[:-1]:
            tgt = tgt[k]
        tgt[path[-1]] = lst[:a] + lst[b:]
        yield c


def minimise(plan, still_fails, candidates, budget=300):
    """Greedy fixpoint: take the first candidate that still fails, restart."""
    used = 0
    improved = True
    while improved and used < budget:
        improved = False
        for cand in candidates(plan):
            if used >= budget:
                break
            used += 1
            try:
                ok = still_fails(cand)
            except Exception:
                ok = False
            if ok:
                plan = cand
                improved = True
                break
    return plan, used
