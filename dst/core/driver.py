"""Batch driver shared by every check: seeded runs on a fork pool, determinism
self-test, confirmation + minimisation of violations, known-findings matching, evidence.

Exit codes: 0 property held on everything explored (KNOWN-FINDING lines allowed);
1 at least one violation not listed in known_findings.json (VIOLATION line printed);
2 harness error (timeouts, worker death, digest mismatch) -- never a pass.
"""
import argparse
import copy
import json
import os
import subprocess
import sys
import time

from . import pool
from .shrink import minimise
from .util import Counter, canon, rng_for, run_seed

VERIF = os.path.dirname(os.path.dirname(os.path.dirname(os.path.abspath(__file__))))


class Check:
    """Interface a property check implements."""

    pid = 'C00'
    level = 'exploration'
    engine = ''
    rule = ''
    assumptions = []
    real = []
    stubs = []
    digest_mismatch_is_violation = False
    shrink_budget = 250

    def budget(self, tier):
        return {'runs': 100, 'time': 60.0, 'run_cap': 60.0, 'selftest': 8}

    def gen(self, rng, tier):
        raise NotImplementedError

    def run(self, plan, keep=False):
        """Execute a plan. Returns dict(viol=[{inv,msg,...}], digest, stats, faults,
        probes, shape, nontrivial, sim_time[, events])."""
        raise NotImplementedError

    def candidates(self, plan):
        return iter(())

    def signature(self, plan, viol):
        return viol['inv']

    def extra_evidence(self, agg):
        return {}


def _plan_for(check, vseed, i, tier):
    seed = run_seed(vseed, check.pid, i)
    plan = check.gen(rng_for(seed), tier)
    plan['property'] = check.pid
    plan['run_seed'] = seed
    plan['run_index'] = i
    return plan


def _pinned_plans(check):
    """Committed plans that are executed in every batch in addition to the seeded ones (negative run
    indices): the minimised histories of the recorded known findings and of repaired defects, so that a
    listed finding is reported by every run and a repaired defect that returns is seen whatever the seed."""
    d = os.path.join(VERIF, 'pinned')
    out = {}
    if os.path.isdir(d):
        for k, fn_ in enumerate(sorted(f for f in os.listdir(d) if f.startswith(check.pid + '-') and f.endswith('.json'))):
            with open(os.path.join(d, fn_)) as f:
                doc = json.load(f)
            plan = doc.get('plan', doc)
            plan['property'] = check.pid
            plan.setdefault('run_seed', 0)
            plan['run_index'] = -(k + 1)
            plan['pinned'] = fn_
            out[-(k + 1)] = plan
    return out


def _exec(check, plan, keep=False):
    res = check.run(plan, keep=keep)
    res.setdefault('viol', [])
    res.setdefault('stats', {})
    res.setdefault('faults', {})
    res.setdefault('probes', {})
    res.setdefault('shape', '')
    res.setdefault('nontrivial', True)
    res.setdefault('sim_time', 0.0)
    return res


def _load_findings():
    path = os.path.join(VERIF, 'known_findings.json')
    if not os.path.exists(path):
        return {'findings': [], 'fixed': []}
    with open(path) as f:
        return json.load(f)


REPLAY_DIR = [None]


def _replay_path(pid, inv, seed):
    d = REPLAY_DIR[0] or os.path.join(VERIF, 'replays')
    os.makedirs(d, exist_ok=True)
    import hashlib
    safe = ''.join(c if c.isalnum() or c in '-_' else '_' for c in inv)
    if len(safe) > 48:
        safe = safe[:40] + '_' + hashlib.sha1(inv.encode()).hexdigest()[:8]
    return os.path.join(d, f"{pid}-{safe}-{seed:016x}.json")


def replay(check, path):
    with open(path) as f:
        doc = json.load(f)
    plan = doc['plan']
    res = _exec(check, plan, keep=True)
    want = doc.get('expected', {})
    invs = sorted({v['inv'] for v in res['viol']})
    print(f"replay: digest={res['digest']} expected={want.get('digest')} violations={invs}")
    for v in res['viol'][:5]:
        print("  ", v['inv'], '::', v.get('msg', '')[:400])
    if want.get('inv') in invs:
        same = (res['digest'] == want.get('digest'))
        print(f"reproduced invariant {want.get('inv')} digest_equal={same}")
        print(f"VIOLATION property={check.pid} replay={path}")
        return 1
    if invs:
        print(f"VIOLATION property={check.pid} replay={path}")
        return 1
    print("NOT-REPRODUCED (no violation on this tree)")
    return 0


def main(check, argv=None):
    ap = argparse.ArgumentParser()
    ap.add_argument('--tier', default=os.environ.get('VERIF_TIER', 'quick'))
    ap.add_argument('--replay')
    ap.add_argument('--runs', type=int)
    ap.add_argument('--time', type=float)
    ap.add_argument('--workers', type=int, default=int(os.environ.get('VERIF_WORKERS', '0')) or None)
    ap.add_argument('--digests', help='internal: print digests of these run indices')
    ap.add_argument('--show', type=int, help='print plan and event log of run index')
    ap.add_argument('--no-evidence', action='store_true')
    ap.add_argument('--no-selftest', action='store_true')
    ap.add_argument('--first', type=int, default=0, help='first run index')
    ap.add_argument('--replay-dir', help='write replay files here instead of /verif/replays (self-tests, soaks)')
    args = ap.parse_args(argv)
    REPLAY_DIR[0] = args.replay_dir
    vseed = int(os.environ.get('VERIF_SEED', '0') or 0)
    tier = args.tier if args.tier in ('quick', 'thorough') else 'quick'

    if args.replay:
        return replay(check, args.replay)

    if args.digests:
        idx = [int(x) for x in args.digests.split(',')]
        out = {}
        for i in idx:
            r = _exec(check, _plan_for(check, vseed, i, tier))
            out[str(i)] = [r['digest'], sorted({v['inv'] for v in r['viol']})]
        print('DIGESTS ' + json.dumps(out))
        return 0

    if args.show is not None:
        plan = _plan_for(check, vseed, args.show, tier)
        print(json.dumps(plan, indent=1, default=repr))
        r = _exec(check, plan, keep=True)
        for e in r.get('events', []):
            print(e)
        print({k: r[k] for k in r if k != 'events'})
        return 0

    t0 = time.time()
    rdir = args.replay_dir or os.path.join(VERIF, 'replays')
    if os.path.isdir(rdir):     # replay files of earlier batches of this check are stale
        for fn_ in os.listdir(rdir):
            if fn_.startswith(check.pid + '-'):
                os.unlink(os.path.join(rdir, fn_))
    b = check.budget(tier)
    nruns = args.runs or b['runs']
    tcap = args.time or b['time']
    indices = range(args.first, args.first + nruns)

    def fn(i):
        plan = _plan_for(check, vseed, i, tier)
        r = _exec(check, plan)
        r.pop('events', None)
        if i < args.first + 3:
            r['sample'] = plan
        return r

    pinned = _pinned_plans(check) if not args.first else {}

    def plan_of(i):
        return pinned[i] if i < 0 else _plan_for(check, vseed, i, tier)

    results = pool.run_batch(indices, fn, nworkers=args.workers, run_cap=b.get('run_cap', 60.0),
                             batch_cap=tcap)
    batch_wall = time.time() - t0
    if pinned:
        def fnp(i):
            r = _exec(check, pinned[i])
            r.pop('events', None)
            return r
        results.update(pool.run_batch(sorted(pinned), fnp, nworkers=args.workers, run_cap=b.get('run_cap', 60.0),
                                      batch_cap=max(60.0, tcap)))
        indices = list(indices) + sorted(pinned)

    stats, faults, probes = Counter(), Counter(), Counter()
    digests, shapes, nontrivial = set(), set(), set()
    harness, skipped, samples, sim_time = [], 0, [], 0.0
    violating = []
    done = 0
    evals = distinct_evals = 0
    for i in indices:
        r = results[i]
        if r.get('skipped'):
            skipped += 1
            continue
        if 'harness_error' in r:
            harness.append((i, r['harness_error']))
            continue
        done += 1
        stats.merge(r['stats'])
        faults.merge(r['faults'])
        probes.merge(r['probes'])
        digests.add(r['digest'])
        shapes.add(r['shape'])
        sim_time += r['sim_time']
        if r['nontrivial']:
            nontrivial.add(r['digest'])
        if 'sample' in r:
            samples.append(r['sample'])
        if r['viol']:
            violating.append((i, r))
        if 'evals' in r:
            evals += r['evals']
            distinct_evals += r.get('distinct_images', 0)

    # ---- determinism self-test -------------------------------------------------
    det = {'checked': 0, 'mismatch_inprocess': 0, 'mismatch_fresh': 0}
    det_viol = []
    if not args.no_selftest and done:
        st = [i for i in indices if i >= 0 and 'digest' in results[i]][:b.get('selftest', 8)]
        again = pool.run_batch(st, fn, nworkers=3, run_cap=b.get('run_cap', 60.0), batch_cap=tcap)
        for i in st:
            det['checked'] += 1
            if again[i].get('digest') != results[i]['digest']:
                det['mismatch_inprocess'] += 1
                det_viol.append((i, 'in-process rerun on another worker'))
        env = dict(os.environ, PYTHONHASHSEED='12345', VERIF_SEED=str(vseed), VERIF_TIER=tier,
                   VERIF_NO_REEXEC='1')
        try:
            cp = subprocess.run([sys.executable, os.path.join(VERIF, 'check'), check.pid, '--tier', tier,
                                 '--digests', ','.join(map(str, st))], env=env, capture_output=True,
                                text=True, timeout=600)
            line = [ln for ln in cp.stdout.splitlines() if ln.startswith('DIGESTS ')]
            if not line:
                harness.append((-1, 'fresh-interpreter self-test produced no digests: ' + cp.stderr[-2000:]))
            else:
                fresh = json.loads(line[0][8:])
                bad = [i for i in st if fresh[str(i)][0] != results[i]['digest']]
                if bad:
                    # The simulator pins PYTHONHASHSEED=0 (it is one of its seams).  A run whose digest moves
                    # under another hash seed is re-run in a fresh interpreter under the pinned seed: if that
                    # reproduces the digest, the hash-order dependence is inside the code under test (e.g.
                    # OpenMDAO's pre/post-optimization grouping of components unconnected to the iterated
                    # set) and is reported as such; otherwise the harness has an uncontrolled source.
                    env0 = dict(env, PYTHONHASHSEED='0')
                    cp0 = subprocess.run([sys.executable, os.path.join(VERIF, 'check'), check.pid, '--tier', tier,
                                          '--digests', ','.join(map(str, bad))], env=env0, capture_output=True,
                                         text=True, timeout=600)
                    line0 = [ln for ln in cp0.stdout.splitlines() if ln.startswith('DIGESTS ')]
                    fresh0 = json.loads(line0[0][8:]) if line0 else {}
                    for i in bad:
                        if fresh0.get(str(i), [None])[0] == results[i]['digest']:
                            det['hashseed_sensitive_system_behaviour'] = \
                                det.get('hashseed_sensitive_system_behaviour', 0) + 1
                        else:
                            det['mismatch_fresh'] += 1
                            det_viol.append((i, 'fresh interpreter'))
        except subprocess.TimeoutExpired:
            harness.append((-1, 'fresh-interpreter self-test timed out'))
        if det_viol and not check.digest_mismatch_is_violation:
            for i, how in det_viol:
                harness.append((i, f'nondeterministic digest ({how})'))

    # ---- violations: confirm, minimise, classify ------------------------------------
    kf = _load_findings()
    known = {(f['property'], f['signature']): f for f in kf.get('findings', [])}
    groups = {}
    for i, r in violating:
        plan = plan_of(i)
        for v in r['viol']:
            sig = check.signature(plan, v)
            groups.setdefault((v['inv'], sig), []).append((i, v))
    if check.digest_mismatch_is_violation:
        for i, how in det_viol:
            groups.setdefault(('determinism', 'digest-differs:' + how), []).append(
                (i, {'inv': 'determinism', 'msg': how}))
    n_viol, n_known, reports = 0, 0, []
    for (inv, sig), members in sorted(groups.items()):
        i, v = members[0]
        plan0 = plan_of(i)
        is_known = (check.pid, sig) in known
        if inv == 'determinism':
            path = _replay_path(check.pid, inv, plan0['run_seed'])
            with open(path, 'w') as f:
                json.dump({'property': check.pid, 'plan': plan0, 'expected': {'inv': inv},
                           'note': v['msg']}, f, indent=1, default=repr)
            n_viol += 1
            print(f"VIOLATION property={check.pid} replay={path}")
            reports.append({'inv': inv, 'sig': sig, 'runs': len(members), 'replay': path})
            continue

        def fails(p, inv=inv, sig=sig):
            r = pool.run_isolated(lambda q: _exec(check, q), p, cap=b.get('run_cap', 60.0) * 2)
            if 'harness_error' in r:
                return False
            return any(x['inv'] == inv and check.signature(p, x) == sig for x in r['viol'])

        if not fails(plan0):
            if inv.endswith('-harness'):
                # a self-validation of the harness (e.g. the real-kill comparison of simdisk) that failed once and
                # passes when the same plan is executed again in a fresh process: the machine (a forked child
                # starved or out of scratch space under load), not the plan.  Reported, not counted as an error.
                print(f"NOTE: harness self-validation {inv} of run {i} failed once and passed on re-execution: "
                      f"{v.get('msg', '')[:200]}")
                continue
            harness.append((i, f'violation {inv} ({sig}) did not reproduce in a fresh fork: {v.get("msg", "")[:300]}'))
            continue
        budget = 40 if is_known else check.shrink_budget
        small, used = minimise(plan0, fails, check.candidates, budget=budget)
        final = pool.run_isolated(lambda q: _exec(check, q, keep=True), small, cap=b.get('run_cap', 60.0) * 2)
        vv = [x for x in final.get('viol', []) if x['inv'] == inv]
        path = _replay_path(check.pid, inv + '-' + sig, plan0['run_seed'])
        with open(path, 'w') as f:
            json.dump({'property': check.pid, 'invariant': inv, 'signature': sig,
                       'expected': {'inv': inv, 'digest': final.get('digest')},
                       'violation': vv[:3], 'plan': small, 'shrink_executions': used,
                       'events': final.get('events', [])[-400:],
                       'unminimised_plan': plan0}, f, indent=1, default=repr)
        msg = (vv[0].get('msg', '') if vv else v.get('msg', ''))[:300].replace('\n', ' ')
        if is_known:
            n_known += 1
            print(f"KNOWN-FINDING: property={check.pid} {known[(check.pid, sig)]['what']} "
                  f"[{len(members)} runs; e.g. replay={path}]")
        else:
            n_viol += 1
            print(f"violation detail: inv={inv} sig={sig} runs={len(members)} :: {msg}")
            print(f"VIOLATION property={check.pid} replay={path}")
        reports.append({'inv': inv, 'sig': sig, 'runs': len(members), 'replay': path, 'known': is_known,
                        'msg': msg})

    wall = time.time() - t0
    cov = {
        'evaluations': evals or done,
        'distinct_nontrivial': distinct_evals or len(nontrivial),
        'runs': done,
        'distinct_nontrivial_runs': len(nontrivial),
        'rule': check.rule,
        'samples': samples[:2] or [{}],
        'distinct_digests': len(digests),
        'distinct_shapes': len(shapes),
        'stats': dict(sorted(stats.items())),
        'faults_fired': dict(sorted(faults.items())),
        'probes': dict(sorted(probes.items())),
        'simulated_time_s': sim_time,
        'runs_per_hour': int(done / batch_wall * 3600) if batch_wall > 0 else 0,
        'seeds_per_hour': int(done / batch_wall * 3600) if batch_wall > 0 else 0,
        'runs_skipped_by_time_guard': skipped,
        'determinism_selftest': det,
        'harness_errors': len(harness),
        'violation_groups': reports,
        'known_findings_hit': n_known,
        'real_code': check.real,
        'stubs': check.stubs,
        'exhaustive': False,
    }
    cov.update(check.extra_evidence({'stats': stats, 'faults': faults, 'probes': probes}))
    ev = {'property_id': check.pid, 'tier': tier, 'seed': vseed, 'level': check.level,
          'coverage': cov, 'assumptions': check.assumptions, 'wall_s': round(wall, 2),
          'violations': n_viol}
    if not args.no_evidence:
        os.makedirs(os.path.join(VERIF, 'evidence'), exist_ok=True)
        with open(os.path.join(VERIF, 'evidence', f'{check.pid}.json'), 'w') as f:
            json.dump(ev, f, indent=1, default=repr, sort_keys=True)
    print(f"{check.pid} tier={tier} seed={vseed} runs={done} skipped={skipped} distinct={len(digests)} "
          f"nontrivial={len(nontrivial)} shapes={len(shapes)} faults={dict(faults)} "
          f"violations={n_viol} known={n_known} harness_errors={len(harness)} wall={wall:.1f}s")
    zero = [k for k, v in probes.items() if v == 0]
    if zero:
        print("probes at zero:", zero)
    for i, h in harness[:5]:
        print(f"HARNESS-ERROR run={i}: {h[-1500:]}")
    if n_viol:
        return 1
    if harness or done == 0:
        return 2
    return 0
