"""Seeds, event log, canonical JSON, environment reset shared by all engines."""
import hashlib
import json
import os
import random
import sys
import warnings

import numpy as np


def run_seed(verif_seed, pid, i):
    """The only input of run i of check pid."""
    h = hashlib.sha256(f"{verif_seed}:{pid}:{i}".encode()).hexdigest()
    return int(h[:16], 16)


def rng_for(seed):
    return random.Random(seed)


def canon(obj):
    """Canonical JSON text (sorted keys, exact float repr)."""
    return json.dumps(obj, sort_keys=True, separators=(',', ':'), default=_jd)


def _jd(o):
    if isinstance(o, np.ndarray):
        return o.tolist()
    if isinstance(o, (np.integer,)):
        return int(o)
    if isinstance(o, (np.floating,)):
        return float(o)
    if isinstance(o, (set, frozenset)):
        return sorted(o)
    if isinstance(o, tuple):
        return list(o)
    if isinstance(o, complex):
        return [o.real, o.imag]
    return repr(o)


class Log:
    """Per-run canonical event log.

    Never draws from a PRNG and never reads a clock.  The digest is a sha256 over the
    canonical text of every event; `keep=True` also keeps the events (replay files,
    determinism diffs).
    """

    def __init__(self, keep=False):
        self._h = hashlib.sha256()
        self.n = 0
        self.keep = keep
        self.events = [] if keep else None
        self.counts = {}

    def ev(self, kind, *fields):
        self.n += 1
        self.counts[kind] = self.counts.get(kind, 0) + 1
        parts = [kind]
        for f in fields:
            parts.append(fmt(f))
        line = '|'.join(parts)
        self._h.update(line.encode())
        self._h.update(b'\n')
        if self.keep:
            self.events.append(line)

    def digest(self):
        return self._h.hexdigest()[:32]


def fmt(f):
    """Exact, canonical text of a value (floats as hex)."""
    if isinstance(f, str):
        return f
    if isinstance(f, bool) or f is None:
        return repr(f)
    if isinstance(f, (int, np.integer)):
        return str(int(f))
    if isinstance(f, (float, np.floating)):
        return float(f).hex()
    if isinstance(f, complex):
        return f"{f.real.hex()}+{f.imag.hex()}j"
    if isinstance(f, np.ndarray):
        a = np.ascontiguousarray(f)
        return f"{a.dtype.str}{list(a.shape)}:{hashlib.sha1(a.tobytes()).hexdigest()[:16]}"
    if isinstance(f, (list, tuple)):
        return '[' + ','.join(fmt(x) for x in f) + ']'
    if isinstance(f, dict):
        return '{' + ','.join(f"{k}={fmt(f[k])}" for k in sorted(f, key=str)) + '}'
    return repr(f)


class Counter(dict):
    def inc(self, k, n=1):
        self[k] = self.get(k, 0) + n

    def merge(self, other):
        for k, v in other.items():
            self[k] = self.get(k, 0) + v


# the tree under test: /repo's working tree, or (sensitivity self-tests only) a mutated scratch worktree
REPO = os.path.abspath(os.environ.get('VERIF_REPO') or '/repo')
SCRATCH = os.environ.get('VERIF_SCRATCH') or f"/var/tmp/verif-{os.getpid()}"


def scratch_dir(sub=''):
    d = os.path.join(SCRATCH, sub) if sub else SCRATCH
    os.makedirs(d, exist_ok=True)
    return d


def prepare_env():
    """Environment-level seams; call before importing openmdao."""
    os.environ['OPENMDAO_REPORTS'] = '0'
    os.environ.setdefault('OPENMDAO_WORKDIR', scratch_dir('wd'))
    if REPO not in sys.path:
        sys.path.insert(0, REPO)


def reset_process_state(seed):
    """Put process-global nondeterminism sources into a plan-determined state."""
    np.random.seed(seed % (2 ** 32))
    random.seed(seed)
    np.seterr(all='ignore')
    warnings.resetwarnings()
    warnings.simplefilter('ignore')
    try:
        import openmdao.core.total_jac as tj
        tj._directional_rng = np.random.default_rng(99)
    except Exception:
        pass
    try:
        import openmdao.utils.array_utils as au
        if hasattr(au, '_randgen'):
            au._randgen = np.random.default_rng(41)
    except Exception:
        pass
    try:
        import openmdao.utils.relevance as rel
        rel._no_relevance = False
    except Exception:
        pass


def dyadic(rng, lo=-8, hi=8, den=4):
    """A dyadic rational as float; JSON round-trips exactly and shrinks well."""
    return rng.randint(lo * den, hi * den) / den


def nz_dyadic(rng, lo=-8, hi=8, den=4):
    while True:
        v = dyadic(rng, lo, hi, den)
        if v != 0:
            return v
