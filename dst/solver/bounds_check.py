"""C10 -- Newton updates filtered by a bounds-enforcing line search.

A stub ImplicitComponent with diagonal Jacobian and a scripted residual makes the Newton
step whatever the adversary chose (pointing out of bounds in seeded entries); residual
scale scripts force Armijo/Goldstein backtracks; AnalysisError / NaN faults hit trial
evaluations.  The stub logs the physical states it is handed at every apply_nonlinear;
invariants are evaluated on every accepted Newton update.
"""
import copy

import numpy as np

from dst.core.driver import Check
from dst.core.shrink import drop_from_list
from dst.core.util import Log, Counter, reset_process_state

EPS = np.finfo(float).eps


def _arr(v, n):
    if v is None:
        return None
    a = np.asarray(v, dtype=float)
    if a.ndim == 0:
        return np.full(n, float(a))
    return a.ravel()


class C10(Check):
    pid = 'C10'
    level = 'exploration'
    engine = 'solversim'
    rule = ("plans = 1-3 state variables (1-D/2-D, n<=6) x bound patterns (none/lower/upper/both, scalar/array, "
            "+-inf entries) x ref/ref0 scalings (incl. ref<ref0, negative) x adversarial Newton steps x "
            "{BoundsEnforceLS, ArmijoGoldsteinLS(Armijo/Goldstein)} x {vector,scalar,wall} x residual-scale "
            "scripts forcing backtracks x AnalysisError/NaN faults at trial evaluations, over 1-3 run_model "
            "calls; distinct = distinct event-log digests; non-trivial = at least one accepted update had an "
            "entry whose full Newton step left its bounds")
    assumptions = [
        "the start point of every run is inside the declared bounds (generator precondition, as in the statement)",
        "round-off allowance epsilon = 1e-10 x the largest magnitude among |ref|,|ref0|,|bound|,|u|,|du| of the whole state (vector enforcement rescales every entry by one rounded factor)",
        "ArmijoGoldsteinLS initial alpha <= 1 (a larger alpha is a request to go beyond the full step)",
        "updates whose Newton step is not finite (after an injected NaN) are not judged",
    ]
    real = ['NewtonSolver', 'BoundsEnforceLS', 'ArmijoGoldsteinLS', '_enforce_bounds_vector/scalar/wall',
            'LinesearchSolver._setup_solvers', 'DirectSolver', 'vector scaling']
    stubs = ['ImplicitComponent with scripted residual and diagonal Jacobian', 'fault plan']

    def budget(self, tier):
        if tier == 'thorough':
            return {'runs': 200000, 'time': 800.0, 'run_cap': 60.0, 'selftest': 200}
        return {'runs': 12000, 'time': 50.0, 'run_cap': 60.0, 'selftest': 16}

    def gen(self, rng, tier):
        nv = rng.choice([1, 1, 2, 3])
        vars_ = []
        for k in range(nv):
            shape = rng.choice([[1], [2], [3], [2, 2], [4], [3, 2]])
            n = int(np.prod(shape))
            kind = rng.choice(['none', 'lower', 'upper', 'both', 'both', 'both'])
            lo = up = None
            if kind in ('lower', 'both'):
                lo = rng.choice([-1.0, 0.0, 0.5]) if rng.random() < 0.4 else \
                    [rng.choice([-1.0, 0.0, 0.5, -2.0, '-inf']) for _ in range(n)]
            if kind in ('upper', 'both'):
                up = rng.choice([2.0, 5.0, 3.5]) if rng.random() < 0.4 else \
                    [rng.choice([2.0, 5.0, 3.5, 10.0, 'inf']) for _ in range(n)]
            ref = ref0 = None
            if rng.random() < 0.6:
                if rng.random() < 0.5:
                    ref = rng.choice([2.0, 0.5, 10.0, -1.0, 0.125, 100.0])
                    ref0 = rng.choice([0.0, 0.25, -1.0, 3.0, 20.0])
                    if ref == ref0:
                        ref0 = 0.0
                else:
                    ref = [rng.choice([2.0, 0.5, 10.0, -1.0, 0.125]) for _ in range(n)]
                    ref0 = [rng.choice([0.0, 0.25, -1.0, 3.0]) for _ in range(n)]
                    ref0 = [0.0 if a == b else b for a, b in zip(ref, ref0)]
            lo_a = _arr([(-np.inf if x == '-inf' else x) for x in lo] if isinstance(lo, list) else lo, n)
            up_a = _arr([(np.inf if x == 'inf' else x) for x in up] if isinstance(up, list) else up, n)
            u0 = []
            for j in range(n):
                a = lo_a[j] if lo_a is not None and np.isfinite(lo_a[j]) else -3.0
                b = up_a[j] if up_a is not None and np.isfinite(up_a[j]) else 6.0
                u0.append(rng.choice([a, b, (a + b) / 2, a + (b - a) / 4, a + (b - a) * 0.875]))
            vars_.append({'name': f'u{k}', 'shape': shape, 'u0': u0, 'lower': lo, 'upper': up, 'ref': ref,
                          'ref0': ref0, 'd': [rng.choice([1.0, 2.0, -1.0, 0.5, 4.0]) for _ in range(n)]})
        nit = rng.randint(1, 3)
        nruns = rng.choice([1, 1, 2, 3])
        runs = []
        for _ in range(nruns):
            its = []
            for _k in range(nit):
                its.append({v['name']: [rng.choice([-40.0, -4.0, -1.0, 0.5, 1.5, 3.0, 7.0, 60.0, 'stay', 'stay'])
                                        for _ in v['u0']] for v in vars_})
            runs.append(its)
        ls = rng.choice(['bounds', 'ag', 'ag'])
        plan = {'vars': vars_, 'runs': runs, 'nit': nit, 'ls': ls,
                'method': rng.choice(['vector', 'scalar', 'wall']),
                'ag': {'method': rng.choice(['Armijo', 'Goldstein']), 'alpha': rng.choice([1.0, 1.0, 0.5, 0.75]),
                       'rho': rng.choice([0.5, 0.25, 0.9]), 'c': rng.choice([0.1, 0.5, 1e-4]),
                       'maxiter': rng.randint(0, 5), 'retry': rng.random() < 0.6},
                'rscale': [1.0] + [rng.choice([1.0, 1.0, 3.0, 0.5, 10.0]) for _ in range(24)],
                'faults': []}
        if rng.random() < 0.35:
            plan['faults'] = [{'apply': rng.randint(2, 14), 'kind': rng.choice(['analysis_error', 'nan'])}
                              for _ in range(rng.randint(1, 2))]
        return plan

    def run(self, plan, keep=False):
        import openmdao.api as om
        reset_process_state(plan.get('run_seed', 0))
        log = Log(keep)
        st, faults, probes = Counter(), Counter(), Counter()
        viol = []
        events = []   # ('apply', {name: u}, {name: r}) | ('begin', k) | ('end', k)
        state = {'napply': 0, 'run': 0, 'it': 0}
        fplan = copy.deepcopy(plan['faults'])

        def unlist(v, inf):
            if isinstance(v, list):
                return np.array([(inf if isinstance(x, str) else x) for x in v], dtype=float)
            return v

        class Imp(om.ImplicitComponent):
            def setup(self):
                for v in plan['vars']:
                    n = len(v['u0'])
                    kw = {}
                    if v['lower'] is not None:
                        lo = unlist(v['lower'], -np.inf)
                        kw['lower'] = lo.reshape(v['shape']) if isinstance(lo, np.ndarray) else lo
                    if v['upper'] is not None:
                        up = unlist(v['upper'], np.inf)
                        kw['upper'] = up.reshape(v['shape']) if isinstance(up, np.ndarray) else up
                    if v['ref'] is not None:
                        r, r0 = v['ref'], v['ref0']
                        kw['ref'] = np.array(r).reshape(v['shape']) if isinstance(r, list) else r
                        kw['ref0'] = np.array(r0).reshape(v['shape']) if isinstance(r0, list) else r0
                    self.add_output(v['name'], val=np.array(v['u0']).reshape(v['shape']), **kw)
                    self.declare_partials(v['name'], v['name'], rows=np.arange(n), cols=np.arange(n),
                                          val=np.array(v['d']))

            def apply_nonlinear(self, i, o, r):
                state['napply'] += 1
                k = state['napply']
                for f in fplan:
                    if f['apply'] == k and not f.get('fired'):
                        f['fired'] = True
                        faults.inc(f['kind'])
                        log.ev('fault', f['kind'], k)
                        if f['kind'] == 'analysis_error':
                            events.append(('apply', {v['name']: np.array(o[v['name']]).ravel().copy()
                                                     for v in plan['vars']}, None))
                            raise om.AnalysisError('sim-fault')
                its = plan['runs'][state['run']]
                tg = its[min(state['it'], len(its) - 1)]
                s = plan['rscale'][min(k, len(plan['rscale']) - 1)]
                us, rs = {}, {}
                for v in plan['vars']:
                    u = np.array(o[v['name']]).ravel().copy()
                    t = np.array([(u[j] if isinstance(x, str) else x) for j, x in enumerate(tg[v['name']])])
                    res = (u - t) * np.array(v['d']) * s
                    for f in fplan:
                        if f['apply'] == k and f['kind'] == 'nan':
                            res = res * np.nan
                    r[v['name']] = res.reshape(v['shape'])
                    us[v['name']], rs[v['name']] = u, res
                events.append(('apply', us, rs))

            def linearize(self, i, o, J):
                pass

        p = om.Problem(name='l')
        p.model.add_subsystem('c', Imp(), promotes=['*'])
        nl = p.model.nonlinear_solver = om.NewtonSolver(solve_subsystems=False, maxiter=plan['nit'], atol=1e-300,
                                                        rtol=1e-300, iprint=-1)
        if plan['ls'] == 'bounds':
            nl.linesearch = om.BoundsEnforceLS(bound_enforcement=plan['method'])
        else:
            a = plan['ag']
            nl.linesearch = om.ArmijoGoldsteinLS(bound_enforcement=plan['method'], maxiter=a['maxiter'], iprint=-1,
                                                 method=a['method'], alpha=a['alpha'], rho=a['rho'], c=a['c'],
                                                 retry_on_analysis_error=a['retry'])
        p.model.linear_solver = om.DirectSolver()
        p.setup()
        orig = nl._single_iteration

        def single():
            events.append(('begin', state['it']))
            try:
                orig()
            finally:
                events.append(('end', state['it']))
                state['it'] += 1
        nl._single_iteration = single

        info = {}
        for v in plan['vars']:
            n = len(v['u0'])
            lo = _arr(unlist(v['lower'], -np.inf), n)
            up = _arr(unlist(v['upper'], np.inf), n)
            info[v['name']] = {
                'lo': lo if lo is not None else np.full(n, -np.inf),
                'up': up if up is not None else np.full(n, np.inf),
                'ref': _arr(v['ref'], n) if v['ref'] is not None else np.ones(n),
                'ref0': _arr(v['ref0'], n) if v['ref0'] is not None else np.zeros(n),
                'd': np.array(v['d'])}

        for ri in range(len(plan['runs'])):
            state['run'], state['it'] = ri, 0
            del events[:]
            if ri > 0:
                for v in plan['vars']:   # restart each run from the (in-bounds) start point
                    p.set_val(v['name'], np.array(v['u0']).reshape(v['shape']))
            raised = None
            try:
                p.run_model()
            except om.AnalysisError as e:
                raised = 'AnalysisError'
            log.ev('run', ri, raised, len(events))
            st.inc('runs')
            # ---- accepted updates
            last_apply = None
            k = 0
            while k < len(events):
                e = events[k]
                if e[0] == 'apply' and e[2] is not None:
                    last_apply = e
                elif e[0] == 'begin':
                    old = last_apply
                    # find the matching end and the first complete apply after it
                    j = k + 1
                    while j < len(events) and events[j][0] != 'end':
                        j += 1
                    nxt = None
                    for m in range(j + 1, len(events)):
                        if events[m][0] == 'apply':
                            nxt = events[m]
                            break
                        if events[m][0] == 'begin':
                            break
                    if old is not None and nxt is not None and j < len(events):
                        ntrial = sum(1 for m in range(k, j) if events[m][0] == 'apply')
                        st.inc('accepted_updates')
                        st.inc('trial_evaluations', ntrial)
                        if ntrial >= 3:
                            probes.inc('update_with_2plus_backtracks')
                        self._judge(plan, info, old, nxt, viol, log, probes, ri, e[1])
                    k = j
                k += 1
            if viol:
                break
        nontrivial = probes.get('step_left_bounds', 0) > 0
        shape = f"{plan['ls']}-{plan['method']}-v{len(plan['vars'])}-b{min(probes.get('update_with_2plus_backtracks', 0), 2)}" \
                f"-neg{int(probes.get('negative_scale_bounded', 0) > 0)}-f{len(plan['faults'])}"
        res = {'viol': viol, 'digest': log.digest(), 'stats': st, 'faults': faults, 'probes': probes,
               'shape': shape, 'nontrivial': nontrivial, 'sim_time': 0.0}
        if keep:
            res['events'] = log.events
        return res

    def _judge(self, plan, info, old, new, viol, log, probes, ri, it):
        # Round-off allowance.  'vector' enforcement pulls the whole vector back by one factor whose
        # rounding error is set by the binding entry and multiplies every other entry's step, so the
        # allowance is relative to the largest magnitude in the whole state (1e-10 of it); genuine
        # bookkeeping errors are O(step) or O(distance to the bound).
        G = 1.0
        for name, inf in info.items():
            for a in (inf['ref'], inf['ref0'], old[1][name], new[1][name], old[2][name] / inf['d'],
                      inf['lo'], inf['up']):
                a = np.abs(a[np.isfinite(a)])
                if a.size:
                    G = max(G, float(a.max()))
        for name, inf in info.items():
            u_old, r_old, u_new = old[1][name], old[2][name], new[1][name]
            du = -r_old / inf['d']
            log.ev('upd', ri, it, name, u_old, du, u_new)
            if not (np.all(np.isfinite(du)) and np.all(np.isfinite(u_old))):
                probes.inc('nonfinite_step_skipped')
                continue
            lo, up = inf['lo'], inf['up']
            eps = 1e-10 * G * np.ones_like(du)
            if np.any(u_old < lo - eps) or np.any(u_old > up + eps):
                probes.inc('start_outside_bounds_skipped')
                continue
            full = u_old + du
            if np.any(full < lo) or np.any(full > up):
                probes.inc('step_left_bounds')
            if np.any((inf['ref'] - inf['ref0'] < 0) & (np.isfinite(lo) | np.isfinite(up))):
                probes.inc('negative_scale_bounded')
            bad = (u_new < lo - eps) | (u_new > up + eps) | ~np.isfinite(u_new)
            if np.any(bad):
                j = int(np.argmax(bad))
                viol.append({'inv': 'I10-in-bounds', 'msg': f"run {ri} Newton iteration {it} var {name}[{j}]: "
                             f"accepted u={u_new[j]!r} outside [{lo[j]!r}, {up[j]!r}] (u_old={u_old[j]!r}, "
                             f"du={du[j]!r}, ref={inf['ref'][j]}, ref0={inf['ref0'][j]}, ls={plan['ls']}/{plan['method']})",
                             'neg': bool((inf['ref'] - inf['ref0'])[j] < 0)})
                return
            mv = u_new - u_old
            opp = (mv * np.sign(du) < -eps) | ((du == 0) & (np.abs(mv) > eps))
            if np.any(opp):
                j = int(np.argmax(opp))
                viol.append({'inv': 'I10-along-step', 'msg': f"run {ri} Newton iteration {it} var {name}[{j}]: moved "
                             f"{mv[j]!r} against its Newton step {du[j]!r} (u_old={u_old[j]!r}, bounds "
                             f"[{lo[j]!r}, {up[j]!r}], ref={inf['ref'][j]}, ref0={inf['ref0'][j]}, "
                             f"ls={plan['ls']}/{plan['method']})",
                             'neg': bool((inf['ref'] - inf['ref0'])[j] < 0)})
                return
            beyond = np.abs(mv) > np.abs(du) + eps
            if np.any(beyond):
                j = int(np.argmax(beyond))
                viol.append({'inv': 'I10-within-full-step', 'msg': f"run {ri} Newton iteration {it} var {name}[{j}]: "
                             f"moved {mv[j]!r}, beyond the full Newton step {du[j]!r}",
                             'neg': bool((inf['ref'] - inf['ref0'])[j] < 0)})
                return

    def candidates(self, plan):
        if plan['faults']:
            yield from drop_from_list(plan, ['faults'])
        if len(plan['runs']) > 1:
            yield from drop_from_list(plan, ['runs'])
        if len(plan['vars']) > 1:
            for i in range(len(plan['vars'])):
                c = copy.deepcopy(plan)
                nm = c['vars'][i]['name']
                del c['vars'][i]
                for its in c['runs']:
                    for t in its:
                        t.pop(nm, None)
                yield c
        if plan['nit'] > 1:
            c = copy.deepcopy(plan)
            c['nit'] -= 1
            yield c
        if plan['ls'] == 'ag':
            c = copy.deepcopy(plan)
            c['ls'] = 'bounds'
            yield c
        if any(x != 1.0 for x in plan['rscale']):
            c = copy.deepcopy(plan)
            c['rscale'] = [1.0]
            yield c
        for i, v in enumerate(plan['vars']):
            n = len(v['u0'])
            if n > 1:      # shrink to the first / last entry
                for keep_idx in ([0], [n - 1], list(range(n // 2)), list(range(n // 2, n))):
                    c = copy.deepcopy(plan)
                    w = c['vars'][i]
                    for key in ('u0', 'd', 'lower', 'upper', 'ref', 'ref0'):
                        if isinstance(w[key], list):
                            w[key] = [w[key][j] for j in keep_idx]
                    w['shape'] = [len(keep_idx)]
                    for its in c['runs']:
                        for t in its:
                            t[w['name']] = [t[w['name']][j] for j in keep_idx]
                    yield c
            for key, dflt in (('ref', None), ('lower', None), ('upper', None)):
                if v[key] is not None:
                    c = copy.deepcopy(plan)
                    c['vars'][i][key] = dflt
                    if key == 'ref':
                        c['vars'][i]['ref0'] = None
                    yield c
            if any(x != 1.0 for x in v['d']):
                c = copy.deepcopy(plan)
                c['vars'][i]['d'] = [1.0] * n
                yield c

    def signature(self, plan, viol):
        return viol['inv']


CHECK = C10()
