"""C09 -- termination contract of the shared iteration loop.

Layer A: the solver instance's `_iter_get_norm` is replaced by an adversary that hands
out a seeded residual-norm history (near-threshold symbols, NaN, inf, stalls); the loop,
stall bookkeeping, failure reporting and cache-check wrapper are real code.
Layer B: real residuals of seeded contraction / expansion cycles, with NaN and
AnalysisError faults from the stub components; an independent residual evaluation after
every solve that reported success.

The oracle is the statement's clauses evaluated over the history the solver actually
consumed (not a prediction of a trajectory).
"""
import contextlib
import copy
import io
import math

import numpy as np

from dst.core.driver import Check
from dst.core.shrink import drop_from_list
from dst.core.util import Log, Counter, reset_process_state

KINDS = ['NLBGS', 'NLBJ', 'Newton', 'Broyden', 'LNBGS', 'LNBJ']
SYMS = ['ABOVE', 'ABOVE', 'ABOVE', 'EQ_PREV', 'PREV_EPS', 'BELOW_ATOL', 'EQ_ATOL', 'ATOL_PLUS', 'ATOL_MINUS',
        'BELOW_RTOL', 'EQ_RTOL', 'RTOL_PLUS', 'RTOL_MINUS', 'ZERO', 'NAN', 'INF', 'DECAY']


def _build(plan, om, stublog, faultplan):
    from openmdao.core.analysis_error import AnalysisError
    g1, g2 = plan['gains']
    evals = {'a': 0, 'b': 0}

    def fault(name):
        evals[name] += 1
        for f in faultplan:
            if f['comp'] == name and f['eval'] == evals[name] and not f.get('fired'):
                f['fired'] = True
                stublog.append(('fault', f['kind'], name, evals[name]))
                return f['kind']
        return None

    class E(om.ExplicitComponent):
        def initialize(self):
            self.options.declare('g', default=0.3)

        def setup(self):
            self.add_input('x', 1.0)
            self.add_output('y', 1.0)
            self.declare_partials('y', 'x', val=self.options['g'])

        def compute(self, i, o):
            k = fault(self.name)
            if k == 'analysis_error':
                raise AnalysisError('sim-fault')
            o['y'] = self.options['g'] * i['x'] + 1.0
            if k == 'nan':
                o['y'] = float('nan')

    class Im(om.ImplicitComponent):
        def initialize(self):
            self.options.declare('g', default=0.3)

        def setup(self):
            self.add_input('x', 1.0)
            self.add_output('u', 1.0)
            self.declare_partials('u', 'u', val=1.0)
            self.declare_partials('u', 'x', val=-self.options['g'])

        def apply_nonlinear(self, i, o, r):
            k = fault(self.name)
            if k == 'analysis_error':
                raise AnalysisError('sim-fault')
            r['u'] = o['u'] - self.options['g'] * i['x'] - 1.0
            if k == 'nan':
                r['u'] = float('nan')

    kind = plan['kind']
    o = dict(maxiter=plan['maxiter'], atol=plan['atol'], rtol=plan['rtol'], iprint=plan['iprint'],
             err_on_non_converge=plan['err'])
    nl = dict(stall_limit=plan['stall_limit'], stall_tol=plan['stall_tol'], stall_tol_type=plan['stall_tol_type'],
              restart_from_successful=plan['extra'].get('restart', False))
    p = om.Problem(name='s')
    m = p.model
    if kind in ('NLBGS', 'NLBJ', 'LNBGS', 'LNBJ'):
        m.add_subsystem('a', E(g=g1))
        m.add_subsystem('b', E(g=g2))
        m.connect('a.y', 'b.x')
        m.connect('b.y', 'a.x')
    else:
        m.add_subsystem('a', Im(g=g1))
        m.add_subsystem('b', Im(g=g2))
        m.connect('a.u', 'b.x')
        m.connect('b.u', 'a.x')
    ex = plan['extra']
    if kind == 'NLBGS':
        s = m.nonlinear_solver = om.NonlinearBlockGS(use_aitken=ex.get('aitken', False),
                                                    use_apply_nonlinear=ex.get('use_apply', False),
                                                    reraise_child_analysiserror=ex.get('reraise', False),
                                                    **o, **nl)
    elif kind == 'NLBJ':
        s = m.nonlinear_solver = om.NonlinearBlockJac(**o, **nl)
    elif kind == 'Newton':
        s = m.nonlinear_solver = om.NewtonSolver(solve_subsystems=ex.get('solve_subsystems', False),
                                                 reraise_child_analysiserror=ex.get('reraise', False), **o, **nl)
        s.linesearch = None
        m.linear_solver = om.DirectSolver()
    elif kind == 'Broyden':
        s = m.nonlinear_solver = om.BroydenSolver(**o, **nl)
        s.linesearch = None
        m.linear_solver = om.DirectSolver()
    elif kind == 'LNBGS':
        m.nonlinear_solver = om.NonlinearBlockGS(maxiter=100, iprint=-1, atol=1e-14, rtol=1e-14)
        s = m.linear_solver = om.LinearBlockGS(**o)
    else:
        m.nonlinear_solver = om.NonlinearBlockGS(maxiter=100, iprint=-1, atol=1e-14, rtol=1e-14)
        s = m.linear_solver = om.LinearBlockJac(**o)
    return p, s


def _concretize(sym, par, atol, rtol, norm0, prev, stall_tol):
    thr = max(atol, rtol * norm0)
    if sym == 'ZERO':
        return 0.0
    if sym == 'BELOW_ATOL':
        return atol * 0.5
    if sym == 'EQ_ATOL':
        return atol
    if sym == 'ATOL_PLUS':
        return atol * (1 + par)
    if sym == 'ATOL_MINUS':
        return atol * (1 - par)
    if sym == 'BELOW_RTOL':
        return rtol * norm0 * 0.5
    if sym == 'EQ_RTOL':
        return rtol * norm0
    if sym == 'RTOL_PLUS':
        return rtol * norm0 * (1 + par)
    if sym == 'RTOL_MINUS':
        return rtol * norm0 * (1 - par)
    if sym == 'ABOVE':
        return thr * (8 + par * 1e6) + par
    if sym == 'EQ_PREV':
        return prev if prev is not None else thr * 9
    if sym == 'PREV_EPS':
        return (prev if prev is not None else thr * 9) + par * stall_tol * 4
    if sym == 'DECAY':
        return (prev if prev is not None else thr * 64) * 0.5
    if sym == 'NAN':
        return float('nan')
    if sym == 'INF':
        return float('inf')
    raise ValueError(sym)


class C09(Check):
    pid = 'C09'
    level = 'exploration'
    engine = 'solversim'
    rule = ("plans = solver class x option grid (maxiter, atol, rtol, stall_limit/tol/type, err_on_non_converge, "
            "iprint, class options, complex-step forcing) x scripted residual-norm history over a 16-symbol "
            "near-threshold alphabet (layer A) or real residuals of a seeded cycle with stub NaN/AnalysisError "
            "faults (layer B); distinct = distinct event-log digests; non-trivial = at least one loop iteration "
            "was executed or a failure was reported")
    assumptions = [
        "'meets a tolerance' is evaluated in floating point exactly as documented: n <= atol or n/norm0 <= rtol",
        "a failure report is observed as an AnalysisError (err_on_non_converge) or a printed message (iprint >= 0)",
        "stall clause accepts any stop where the last stall_limit iterates are within stall_tol of one common earlier reference (norm0 or an earlier iterate)",
        "layer A replaces the solver instance's _iter_get_norm (a stub); every other line of the loop is real",
    ]
    real = ['NonlinearSolver._solve', 'LinearSolver._solve', 'NewtonSolver', 'BroydenSolver', 'NonlinearBlockGS',
            'NonlinearBlockJac', 'LinearBlockGS', 'LinearBlockJac', '_solve_with_cache_check', 'report_failure',
            'Problem.run_model / compute_totals / set_complex_step_mode']
    stubs = ['_iter_get_norm (layer A only)', 'two stub components in a cycle', 'fault plan']

    def budget(self, tier):
        if tier == 'thorough':
            return {'runs': 150000, 'time': 800.0, 'run_cap': 60.0, 'selftest': 200}
        return {'runs': 20000, 'time': 50.0, 'run_cap': 60.0, 'selftest': 16}

    def gen(self, rng, tier):
        kind = rng.choice(KINDS)
        layer = 'A' if rng.random() < 0.7 else 'B'
        linear = kind.startswith('LN')
        maxiter = rng.randint(0, 6) if layer == 'A' else rng.choice([1, 2, 3, 5, 10, 30])
        atol = rng.choice([1e-10, 1e-6, 1e-3])
        rtol = rng.choice([1e-10, 1e-3, 1e-30, 0.5])
        plan = {
            'kind': kind, 'layer': layer, 'maxiter': maxiter, 'atol': atol, 'rtol': rtol,
            'iprint': rng.choice([0, 0, -1]), 'err': rng.random() < 0.5,
            'stall_limit': 0 if linear else rng.choice([0, 0, 1, 2, 3]),
            'stall_tol': rng.choice([1e-12, 1e-3, 1e-6]), 'stall_tol_type': rng.choice(['abs', 'rel']),
            'extra': {}, 'cs': False, 'mode': rng.choice(['fwd', 'rev']),
            'gains': [0.25, 0.5], 'hist': [], 'faults': [],
        }
        ex = plan['extra']
        if kind == 'NLBGS':
            ex['aitken'] = rng.random() < 0.25
            ex['use_apply'] = rng.random() < 0.4
        if kind in ('NLBGS', 'Newton'):
            ex['reraise'] = rng.random() < 0.5
        if kind == 'Newton':
            ex['solve_subsystems'] = rng.random() < 0.3
        if not linear:
            ex['restart'] = rng.random() < 0.2
            plan['cs'] = rng.random() < 0.15
        if layer == 'A':
            n = maxiter + 3
            plan['hist'] = [[rng.choice(SYMS), rng.choice([1e-9, 1e-4, 0.3, 0.01])] for _ in range(n)]
            if rng.random() < 0.25 and not linear:
                # "stall coinciding with convergence": approach a threshold from just above
                k = rng.randint(0, max(0, n - 2))
                plan['hist'][k] = [rng.choice(['ATOL_PLUS', 'RTOL_PLUS']), 1e-9]
                plan['hist'][k + 1] = [rng.choice(['ATOL_MINUS', 'RTOL_MINUS', 'EQ_ATOL']), 1e-9]
        else:
            plan['gains'] = [rng.choice([0.1, 0.25, 0.5, -0.5, 0.9, 1.0, 1.25, -1.5, 2.0]),
                             rng.choice([0.1, 0.5, 0.75, 1.0, -1.0, 1.5])]
            if abs(plan['gains'][0] * plan['gains'][1] - 1.0) < 1e-9:
                plan['gains'][1] = 0.125     # keep I - M non-singular
        if rng.random() < (0.25 if layer == 'A' else 0.4):
            plan['faults'] = [{'comp': rng.choice(['a', 'b']), 'eval': rng.randint(1, 8),
                               'kind': rng.choice(['analysis_error', 'nan'] if layer == 'B' else ['analysis_error'])}]
        return plan

    def run(self, plan, keep=False):
        import openmdao.api as om
        reset_process_state(plan.get('run_seed', 0))
        log = Log(keep)
        st, faults, probes = Counter(), Counter(), Counter()
        viol = []
        stublog = []
        faultplan = copy.deepcopy(plan['faults'])
        p, s = _build(plan, om, stublog, faultplan)
        linear = plan['kind'].startswith('LN')
        p.setup(force_alloc_complex=plan['cs'], mode=plan['mode'])
        buf = io.StringIO()
        if linear:
            fp_save, faultplan[:] = list(faultplan), []
            with contextlib.redirect_stdout(buf):
                p.run_model()
            faultplan[:] = fp_save
        else:
            p.final_setup()
        atol, rtol, maxiter = plan['atol'], plan['rtol'], plan['maxiter']
        obs = {'H': [], 'init': None, 'single': 0, 'solves': 0}
        orig_norm = s._iter_get_norm
        orig_init = s._iter_initialize
        orig_single = s._single_iteration
        orig_solve = s._solve
        hist = list(plan['hist'])
        state = {'prev': None, 'norm0': 1.0, 'first': True}

        def scripted_norm():
            if obs['solves'] > 1:
                return 0.0
            if not hist:
                v = 777.0
            else:
                sym, par = hist.pop(0)
                v = _concretize(sym, par, atol, rtol, state['norm0'], state['prev'], plan['stall_tol'])
            if state['first']:
                state['first'] = False
                state['norm0'] = v if (v != 0.0 and v == v) else 1.0
            state['prev'] = v
            obs['H'].append(v)
            log.ev('norm', v)
            return v

        def observed_norm():
            v = orig_norm()
            if obs['solves'] <= 1:
                obs['H'].append(float(v))
                log.ev('norm', float(v))
            return v

        def init():
            n_before = len(obs['H'])
            r = orig_init()
            if obs['solves'] <= 1:
                obs['init'] = (float(r[0]), float(r[1]), len(obs['H']) - n_before)
            return r

        def single():
            if obs['solves'] <= 1:
                obs['single'] += 1
            return orig_single()

        def solve():
            obs['solves'] += 1
            return orig_solve()

        s._iter_get_norm = scripted_norm if plan['layer'] == 'A' else observed_norm
        s._iter_initialize = init
        s._single_iteration = single
        s._solve = solve

        raised = None
        if plan['cs'] and not linear:
            p.set_complex_step_mode(True)
        try:
            with contextlib.redirect_stdout(buf):
                if linear:
                    p.compute_totals(of=['a.y'], wrt=['a.x'])
                else:
                    p.model.run_solve_nonlinear() if plan['cs'] else p.run_model()
        except om.AnalysisError as e:
            raised = str(e)
        finally:
            if plan['cs'] and not linear:
                try:
                    p.set_complex_step_mode(False)
                except Exception:
                    pass
        out = buf.getvalue()
        for f in faultplan:
            if f.get('fired'):
                faults.inc(f['kind'])
        aborted = raised is not None and 'sim-fault' in raised
        log.ev('outcome', repr(raised)[:80], out.strip()[:80], s._iter_count, obs['single'])

        # ------------------------------------------------------------ oracle (clause form)
        def V(inv, msg):
            viol.append({'inv': inv, 'msg': msg + f" | kind={plan['kind']} H={obs['H']} init={obs['init']} "
                         f"iter_count={s._iter_count} single={obs['single']} raised={raised!r} out={out.strip()[:120]!r}"})

        if obs['init'] is None:
            if not aborted and obs['solves'] == 0:
                V('I09-harness', 'solver never ran')
        else:
            norm0 = obs['init'][0]
            if norm0 == 0:
                norm0 = 1.0
            # iterate sequence seen by the loop condition: the initial norm, then one per iteration
            H = obs['H'][obs['init'][2]:]
            seq = [obs['init'][1]] + H

            def meets(n):
                with np.errstate(all='ignore'):
                    return bool(n <= atol or np.float64(n) / np.float64(norm0) <= rtol)

            cs_extra = 1 if plan['cs'] else 0
            st.inc('iterations', obs['single'])
            if obs['single'] > maxiter + cs_extra or s._iter_count > maxiter + cs_extra:
                V('I09-maxiter', f"more than maxiter={maxiter} iterations")
            for k, n in enumerate(seq[:-1]):
                if k == 0 and plan['cs']:
                    continue
                if meets(n):
                    V('I09-first-meeting', f"iterate {k} (norm {n!r}) met a tolerance but the solver iterated on")
                    break
            if not aborted:
                last = seq[-1]
                with np.errstate(all='ignore'):
                    finite = math.isfinite(last) and math.isfinite(np.float64(last) / np.float64(norm0))
                ok = math.isfinite(last) and meets(last)
                # --- permitted stop reason
                at_max = s._iter_count >= maxiter or obs['single'] >= maxiter
                stalled_ok = False
                L = plan['stall_limit']
                if L > 0 and len(seq) - 1 >= L:
                    typ = plan['stall_tol_type']
                    vals = [(x / norm0 if typ == 'rel' else x) for x in seq]
                    tail = vals[-L:]
                    refs = [norm0] + vals[:-1]
                    with np.errstate(all='ignore'):
                        stalled_ok = any(all(abs(r - t) <= plan['stall_tol'] for t in tail) for r in refs)
                if not (ok or at_max or not finite or stalled_ok):
                    V('I09-early-stop', "solver stopped before maxiter without meeting a tolerance, NaN/inf or a stall")
                if stalled_ok and ok:
                    probes.inc('stall_and_convergence_same_iterate')
                if not finite:
                    probes.inc('stopped_on_nan_inf')
                # --- failure reported iff no tolerance met / not finite
                fail_expected = not ok
                printed = bool(out.strip())
                if plan['err']:
                    if (raised is not None) != fail_expected:
                        V('I09-report', f"err_on_non_converge: AnalysisError raised={raised is not None}, "
                          f"expected failure={fail_expected}")
                else:
                    if raised is not None:
                        V('I09-report', "AnalysisError raised although err_on_non_converge is False")
                    elif plan['iprint'] >= 0 and printed != fail_expected:
                        V('I09-report', f"failure message printed={printed}, expected failure={fail_expected}")
                if fail_expected:
                    st.inc('failures_reported_expected')
                else:
                    st.inc('successes')
                # --- layer B: a solve that reported success leaves no residual above both tolerances
                if plan['layer'] == 'B' and ok and raised is None and not linear and not plan['cs']:
                    s._iter_get_norm = orig_norm
                    for f in faultplan:
                        f['fired'] = True     # faults stop before the independent evaluation
                    p.model.run_apply_nonlinear()
                    r = float(p.model._residuals.get_norm())
                    g = max(1.0, abs(plan['gains'][0]), abs(plan['gains'][1]))
                    if plan['extra'].get('aitken'):
                        # the NLBGS norm is theta*|G(y)-y| with theta >= aitken_min_factor (0.1):
                        # true residual <= ((1-theta)/theta + L) * norm
                        g = g + 9.0
                    bound = max(atol, rtol * norm0) * g * (1 + 1e-6) + 1e-15
                    st.inc('independent_residual_checks')
                    if not (r <= bound):
                        V('I09-success-residual', f"solve reported success but independent residual norm {r!r} "
                          f"> {bound!r}")
                        swallowed = [f for f in plan['faults'] if f['kind'] == 'analysis_error'] and \
                            any(e[0] == 'fault' and e[1] == 'analysis_error' for e in stublog)
                        viol[-1]['ctx'] = (plan['kind'] + ':swallowed-child-AnalysisError') if swallowed else plan['kind']
            else:
                st.inc('aborted_by_child_error')
        nontrivial = obs['single'] > 0 or bool(out.strip()) or raised is not None
        shape = f"{plan['kind']}-{plan['layer']}-i{min(obs['single'], 7)}-{'F' if (raised or out.strip()) else 'S'}-cs{int(plan['cs'])}"
        res = {'viol': viol, 'digest': log.digest(), 'stats': st, 'faults': faults, 'probes': probes,
               'shape': shape, 'nontrivial': nontrivial, 'sim_time': 0.0}
        if keep:
            res['events'] = log.events
        return res

    def candidates(self, plan):
        if plan['faults']:
            c = copy.deepcopy(plan)
            c['faults'] = []
            yield c
        if plan['hist']:
            yield from drop_from_list(plan, ['hist'])
        for k, dflt in (('cs', False), ('stall_limit', 0), ('iprint', 0), ('err', False), ('extra', {})):
            if plan[k] != dflt:
                c = copy.deepcopy(plan)
                c[k] = dflt
                yield c
        if plan['maxiter'] > 1:
            c = copy.deepcopy(plan)
            c['maxiter'] -= 1
            yield c
        for i, (sym, par) in enumerate(plan['hist']):
            if sym not in ('ABOVE', 'BELOW_ATOL'):
                for rep in ('ABOVE', 'BELOW_ATOL'):
                    c = copy.deepcopy(plan)
                    c['hist'][i] = [rep, par]
                    yield c

    def signature(self, plan, viol):
        return viol['inv'] + (':' + viol['ctx'] if viol.get('ctx') else '')


CHECK = C09()
