"""drvsim: drivers calling back into (failing) stub models.  C21 (optimizer success => feasible,
optimal, model left at the returned design) and C23 (DOE generators)."""
import contextlib
import copy
import io
import itertools

import numpy as np

from dst.core.driver import Check
from dst.core.shrink import drop_from_list
from dst.core import util
from dst.core.util import Log, Counter, reset_process_state, dyadic

INF = 1e30


# =========================================================================== QP worlds
def gen_qp(rng):
    opt = rng.choice(['SLSQP', 'SLSQP', 'COBYLA', 'trust-constr'])
    n = rng.randint(1, 3)
    ncon = rng.randint(1, 2)            # constraint arrays
    L = (np.eye(n) + np.array([[dyadic(rng, -2, 2, 4) for _ in range(n)] for _ in range(n)]) * 0.5)
    if abs(np.linalg.det(L)) < 0.2:
        L = np.eye(n)
    t = [dyadic(rng, -3, 3, 2) for _ in range(n)]
    x0 = [dyadic(rng, -1, 1, 2) for _ in range(n)]
    cons = []
    for k in range(ncon):
        m = rng.randint(1, 3)
        C = [[dyadic(rng, -2, 2, 2) for _ in range(n)] for _ in range(m)]
        for r in range(m):
            if not any(C[r]):
                C[r][rng.randrange(n)] = 1.0
        # no two constraint rows of the problem are parallel (degenerate active sets stall SLSQP legitimately)
        prev = [row for c_ in cons for row in c_['C']]
        for r in range(m):
            for _try in range(20):
                others = prev + C[:r]
                if n == 1 or not any(np.linalg.matrix_rank(np.array([C[r], o])) < 2 for o in others):
                    break
                C[r] = [dyadic(rng, -2, 2, 2) for _ in range(n)]
                if not any(C[r]):
                    C[r][rng.randrange(n)] = 1.0
        d = [dyadic(rng, -2, 2, 2) for _ in range(m)]
        g0 = (np.array(C) @ np.array(x0) + np.array(d)).tolist()
        kind = rng.choice(['ineq', 'ineq', 'ineq', 'eq'])
        if opt == 'COBYLA':
            kind = 'ineq'       # documented: equality constraints are supported by SLSQP / trust-constr only
        if kind == 'eq' and (any(c_['kind'] == 'eq' for c_ in cons) or
                             np.linalg.matrix_rank(np.array(C[:min(m, n)])) < min(m, n) or n == 1 and m > 1):
            kind = 'ineq'       # at most one, full-rank, equality block (fewer rows than variables allow)
        # scipy's keep_feasible needs a start point that satisfies linear constraints: only inequality rows,
        # whose bounds are drawn around the start point, are declared linear
        con = {'C': C, 'd': d, 'kind': kind, 'linear': kind == 'ineq' and rng.random() < 0.25}
        if kind == 'eq':
            m = min(m, n)
            con['C'], con['d'] = C[:m], d[:m]
            con['equals'] = [g0[r] + dyadic(rng, -1, 1, 2) for r in range(m)]
            if rng.random() < 0.4:
                con['equals'] = con['equals'][0]
        else:
            lo, up = [], []
            for r in range(m):
                pat = rng.choice(['lower', 'upper', 'both'])
                lo.append(g0[r] - dyadic(rng, 0, 2, 2) if pat in ('lower', 'both') else -INF)
                up.append(g0[r] + dyadic(rng, 0, 2, 2) if pat in ('upper', 'both') else INF)
                if pat == 'both' and up[-1] == lo[-1]:
                    up[-1] += 0.5          # a two-sided row is not an equality in disguise
                if con['linear'] or opt == 'COBYLA':     # (scipy's COBYLA with bounds= also stalls on a vertex start)
                    # scipy's keep_feasible start-point test is strict to the last bit and a start on a
                    # vertex of linear rows degenerates: linear rows start strictly inside their bounds
                    if lo[-1] > -INF and lo[-1] > g0[r] - 0.5:
                        lo[-1] = g0[r] - 0.5
                    if up[-1] < INF and up[-1] < g0[r] + 0.5:
                        up[-1] = g0[r] + 0.5
            form = rng.choice(['array', 'array', 'scalar'])
            if form == 'scalar':
                # one scalar bound for the whole array (only sides every row has)
                con['lower'] = min(lo) if all(v > -INF for v in lo) else None
                con['upper'] = max(up) if all(v < INF for v in up) else None
                if con['lower'] is None and con['upper'] is None:
                    con['upper'] = max(v for v in up if v < INF) if any(v < INF for v in up) else None
                    con['lower'] = None if con['upper'] is not None else min(v for v in lo if v > -INF)
            else:
                con['lower'] = lo if any(v > -INF for v in lo) else None
                con['upper'] = up if any(v < INF for v in up) else None
            if rng.random() < 0.25 and len(con['C']) > 1:
                m2 = len(con['C'])
                con['indices'] = sorted(rng.sample(range(m2), rng.randint(1, m2)))
                for side in ('lower', 'upper'):
                    if isinstance(con.get(side), list):
                        con[side] = [con[side][i] for i in con['indices']]     # bounds are per selected element
        r = rng.random()
        if r < 0.2:
            con['scaler'], con['adder'] = rng.choice([2.0, 0.5, 10.0]), rng.choice([0.0, 1.0])
        elif r < 0.4:
            con['ref0'] = rng.choice([0.0, 1.0, -1.0])
            con['ref'] = con['ref0'] + rng.choice([2.0, 10.0, 0.5])       # positive driver scaling
        cons.append(con)
    q = {'L': L.tolist(), 't': t, 'x0': x0, 'cons': cons, 'xlo': -5.0, 'xup': 5.0,
         'opt': opt,
         'dv': {}, 'obj': {}, 'units': rng.random() < 0.3}
    r = rng.random()
    if r < 0.25:
        q['dv'] = {'scaler': rng.choice([2.0, 0.25, 4.0]), 'adder': rng.choice([0.0, 0.5])}
    elif r < 0.45:
        r0 = rng.choice([0.0, 1.0])
        q['dv'] = {'ref': r0 + rng.choice([3.0, 0.5]), 'ref0': r0}
    if rng.random() < 0.3:
        q['obj'] = {'scaler': rng.choice([2.0, 0.1, 100.0])}
    if q['units']:
        # the design variable is expressed in cm (values 100x the model's): keep the optimizer's variables
        # O(1) with the declared scaling, otherwise SLSQP's ftol stops early on the flattened objective
        q['dv'] = rng.choice([{'scaler': 0.01, 'adder': 0.0}, {'scaler': 0.02, 'adder': 50.0},
                              {'ref': 100.0, 'ref0': 0.0}, {'ref': 150.0, 'ref0': 50.0}])
    elif q['dv'].get('scaler') == 10.0:
        q['dv']['scaler'] = 4.0
    return q


def con_rows(q):
    """Every scalar constraint element as (row, d, lower, upper, equals) in model units, honouring indices."""
    rows = []
    for k, c in enumerate(q['cons']):
        m = len(c['C'])
        idx = c.get('indices', list(range(m)))
        for pos, r in enumerate(idx):
            def pick(v, dflt):
                if v is None:
                    return dflt
                if isinstance(v, list):
                    return v[pos] if len(v) == len(idx) else v[r]
                return v
            if c['kind'] == 'eq':
                e = pick(c['equals'], None)
                rows.append((k, r, np.array(c['C'][r]), c['d'][r], None, None, e))
            else:
                rows.append((k, r, np.array(c['C'][r]), c['d'][r], pick(c.get('lower'), -INF), pick(c.get('upper'), INF), None))
    return rows


def plain_scipy_twin(q, x_start):
    """The same QP handed to scipy.optimize.minimize directly (physical units, no OpenMDAO, constraints passed the
    way ScipyOptimizeDriver passes them): what the optimizer itself makes of the problem from that start.
    Returns x or None."""
    import warnings
    from scipy.optimize import minimize, NonlinearConstraint, LinearConstraint, Bounds, BFGS
    L, t = np.array(q['L']), np.array(q['t'])
    H = L.T @ L
    f = lambda x: 0.5 * float(np.sum((L @ (x - t)) ** 2))        # noqa: E731
    g = lambda x: H @ (x - t)                                     # noqa: E731
    n = len(t)
    rows = con_rows(q)
    try:
        with warnings.catch_warnings():
            warnings.simplefilter('ignore')
            if q['opt'] == 'SLSQP':
                cons = []
                for k, rr, a, d, lo, up, e in rows:
                    if e is not None:
                        cons.append({'type': 'eq', 'fun': (lambda x, a=a, d=d, e=e: a @ x + d - e), 'jac': (lambda x, a=a: a)})
                        continue
                    if lo > -1e29:
                        cons.append({'type': 'ineq', 'fun': (lambda x, a=a, d=d, lo=lo: a @ x + d - lo), 'jac': (lambda x, a=a: a)})
                    if up < 1e29:
                        cons.append({'type': 'ineq', 'fun': (lambda x, a=a, d=d, up=up: up - (a @ x + d)), 'jac': (lambda x, a=a: -a)})
                r = minimize(f, np.array(x_start, dtype=float), jac=g, method='SLSQP', bounds=[(q['xlo'], q['xup'])] * n,
                             constraints=cons, tol=1e-10, options={'maxiter': 400})
            elif q['opt'] == 'trust-constr':
                cons = []
                for k, rr, a, d, lo, up, e in rows:
                    lb, ub = (e, e) if e is not None else (max(lo, -np.inf if lo < -1e29 else lo), up if up < 1e29 else np.inf)
                    if e is None and lo < -1e29:
                        lb = -np.inf
                    if q['cons'][k].get('linear'):
                        cons.append(LinearConstraint(a[None, :], lb - d, ub - d, keep_feasible=True))
                    else:
                        cons.append(NonlinearConstraint((lambda x, a=a, d=d: np.array([a @ x + d])), lb, ub,
                                                        jac=(lambda x, a=a: a[None, :])))
                r = minimize(f, np.array(x_start, dtype=float), jac=g, hess=BFGS(), method='trust-constr',
                             bounds=Bounds([q['xlo']] * n, [q['xup']] * n), constraints=cons, tol=1e-10,
                             options={'maxiter': 400})
            else:
                return None
        return np.array(r.x, dtype=float) if r.success else None
    except Exception:      # noqa
        return None


def qp_reference(q):
    """Active-set / KKT enumeration of  min 1/2 |L(x-t)|^2  s.t. rows, variable bounds."""
    L, t = np.array(q['L']), np.array(q['t'])
    n = len(t)
    H = L.T @ L
    c = -H @ t
    eqs, ineqs = [], []
    for k, r, a, d, lo, up, e in con_rows(q):
        if e is not None:
            eqs.append((a, e - d))
        else:
            if lo > -INF:
                ineqs.append((a, lo - d))
            if up < INF:
                ineqs.append((a, up - d))
    for j in range(n):
        ej = np.zeros(n)
        ej[j] = 1
        ineqs.append((ej, q['xlo']))
        ineqs.append((ej, q['xup']))

    def feas(x):
        if np.any(x < q['xlo'] - 1e-9) or np.any(x > q['xup'] + 1e-9):
            return False
        for k, r, a, d, lo, up, e in con_rows(q):
            g = a @ x + d
            if e is not None:
                if abs(g - e) > 1e-8:
                    return False
            elif g < lo - 1e-9 or g > up + 1e-9:
                return False
        return True
    best = None
    ne = len(eqs)
    for k in range(0, max(0, n - ne) + 1):
        for act in itertools.combinations(range(len(ineqs)), k):
            rows = eqs + [ineqs[i] for i in act]
            kk = len(rows)
            if kk:
                A = np.array([r_[0] for r_ in rows]).reshape(kk, n)
                b = np.array([r_[1] for r_ in rows])
                K = np.block([[H, A.T], [A, np.zeros((kk, kk))]])
                rhs = np.concatenate([-c, b])
            else:
                K, rhs = H, -c
            try:
                sol = np.linalg.solve(K, rhs)
            except np.linalg.LinAlgError:
                continue
            x = sol[:n]
            if feas(x):
                f = 0.5 * np.sum((L @ (x - t)) ** 2)
                if best is None or f < best[0] - 1e-12:
                    best = (f, x)
    return best


class C21(Check):
    pid = 'C21'
    level = 'exploration'
    engine = 'drvsim'
    rule = ("plans = strictly convex QPs (1-3 variables, 1-2 constraint arrays with 1-3 rows) with seeded PER-ELEMENT "
            "bound patterns (lower/upper/both/equality, scalar and array forms, indices), linear and nonlinear "
            "flags, driver scalings on design variables, objective and constraints, optimizer in {SLSQP, COBYLA, "
            "trust-constr}; the optimizer is real scipy and decides the callback schedule, the simulator decides which "
            "model evaluations fail (AnalysisError / NaN at the k-th evaluation or linearisation; fault-free and "
            "fault-injecting configurations are separate runs); distinct = event-log digests; non-trivial = the "
            "driver reported success and at least one constraint row is active at the reference optimum")
    assumptions = ["feasibility tolerance 1e-5 (1 + |bound|) in model units; optimum tolerance 2e-3 relative (optimizer tol 1e-10)",
                   "optimality is judged for SLSQP and trust-constr; scipy 1.18 COBYLA with bounds= stalls at suboptimal feasible points by itself (reproduced without OpenMDAO), so for COBYLA only model state and feasibility are judged",
                   "generator preconditions: positive driver scalings, O(1) scaled variables, no parallel constraint rows, at most one full-rank equality block, no equality rows for COBYLA (documented), start strictly inside rows declared linear",
                   "reference optimum by exhaustive active-set/KKT enumeration in NumPy (<= 3 variables, <= 6 rows + bounds)",
                   "when an injected fault surfaces as an exception there is no success to judge; the exception must surface"]
    real = ['ScipyOptimizeDriver', 'scipy.optimize.minimize (SLSQP, COBYLA, trust-constr)', 'autoscaler / driver scaling',
            'total derivatives of the stub model']
    stubs = ['QP stub component (objective + constraint arrays)', 'fault plan on model evaluations']

    def budget(self, tier):
        if tier == 'thorough':
            return {'runs': 60000, 'time': 1200.0, 'run_cap': 120.0, 'selftest': 100}
        return {'runs': 2000, 'time': 55.0, 'run_cap': 120.0, 'selftest': 12}

    def gen(self, rng, tier):
        q = gen_qp(rng)
        plan = {'qp': q, 'fault': None, 'twin_scaling': rng.random() < 0.3}
        if rng.random() < 0.3:
            # a second run_driver on the same Problem after a parameter that is not a design variable (the
            # target of the objective) was moved with set_val: nothing of the first run may answer for it
            plan['second'] = {'t2': [dyadic(rng, -3, 3, 2) for _ in q['t']]}
        if rng.random() < 0.25:
            plan['fault'] = {'method': rng.choice(['compute', 'compute', 'compute_partials']), 'n': rng.randint(1, 12),
                             'kind': rng.choice(['analysis_error', 'nan'])}
        return plan

    @staticmethod
    def _degenerate_at_optimum(qq, ref):
        """The equality rows force a variable onto one of its bounds: their gradients and those of the bounds
        active at the reference optimum are linearly dependent (no constraint qualification).  Inequality rows
        are left out on purpose: two coincident rows that happen to pass through the optimum are harmless."""
        xs = ref[1]
        act = []
        for k, rr, a, d, lo, up, e in con_rows(qq):
            if e is not None:
                act.append(np.array(a, dtype=float))
        if not act:
            return False
        for j in range(len(xs)):
            if abs(xs[j] - qq['xlo']) < 1e-7 or abs(xs[j] - qq['xup']) < 1e-7:
                ej = np.zeros(len(xs))
                ej[j] = 1.0
                act.append(ej)
        return bool(act) and np.linalg.matrix_rank(np.array(act), tol=1e-9) < len(act)

    @staticmethod
    def _optimizer_itself_suboptimal(qq, x_start, ref):
        if x_start is None or ref is None:
            return False
        if C21._degenerate_at_optimum(qq, ref):
            # no constraint qualification at the optimum: SLSQP / trust-constr stop early there with success, and
            # where they stop depends on the scaling of the variables (plain scipy in metres finds the optimum of a
            # problem on which plain scipy in centimetres -- what the driver passes with units='cm' -- does not)
            return True
        xt = plain_scipy_twin(qq, x_start)
        if xt is None:
            return False
        f_t = 0.5 * float(np.sum((np.array(qq['L']) @ (xt - np.array(qq['t']))) ** 2))
        return bool(np.abs(xt - ref[1]).max() > 2e-3 * (1 + np.abs(ref[1]).max()) and
                    f_t - ref[0] > 1e-6 * (1.0 + abs(ref[0])))

    def _solve(self, q, fault, log, st, faults, second=None):
        import openmdao.api as om
        L, t = np.array(q['L']), np.array(q['t'])
        counts = {'compute': 0, 'compute_partials': 0}
        last_x = {}
        fired = []

        class QP(om.ExplicitComponent):
            def setup(self):
                n = len(t)
                self.add_input('x', np.zeros(n), units='m' if q['units'] else None)
                self.add_input('tgt', t.copy())          # a parameter of the model, not a design variable
                self.add_output('f', 0.0)
                self.declare_partials('f', ['x', 'tgt'])
                for k, c in enumerate(q['cons']):
                    self.add_output(f'g{k}', np.zeros(len(c['C'])))
                    self.declare_partials(f'g{k}', 'x', val=np.array(c['C']))

            def _hit(self, m):
                counts[m] += 1
                if fault and fault['method'] == m and fault['n'] == counts[m] and not fired:
                    fired.append(fault['kind'])
                    faults.inc(fault['kind'] + ':' + m)
                    if fault['kind'] == 'analysis_error':
                        raise om.AnalysisError('sim-fault')
                    return 'nan'

            def compute(self, i, o):
                k = self._hit('compute')
                x = np.array(i['x'])
                last_x['x'] = x.copy()
                r = L @ (x - np.array(i['tgt']))
                o['f'] = 0.5 * r @ r * (np.nan if k == 'nan' else 1.0)
                for j, c in enumerate(q['cons']):
                    o[f'g{j}'] = np.array(c['C']) @ x + np.array(c['d'])

            def compute_partials(self, i, J):
                k = self._hit('compute_partials')
                gx = (L.T @ L @ (np.array(i['x']) - np.array(i['tgt'])))[None, :]
                J['f', 'x'] = gx * (np.nan if k == 'nan' else 1.0)
                J['f', 'tgt'] = -gx

        p = om.Problem(name='q')
        m = p.model
        m.add_subsystem('c', QP(), promotes=['*'])
        dvkw = dict(q['dv'])
        ufac = 1.0
        if q['units']:
            dvkw['units'] = 'cm'
            ufac = 100.0
        m.add_design_var('x', lower=q['xlo'] * ufac, upper=q['xup'] * ufac, **dvkw)
        m.add_objective('f', **q['obj'])
        for k, c in enumerate(q['cons']):
            kw = {kk: c[kk] for kk in ('scaler', 'adder', 'ref', 'ref0', 'indices') if kk in c}
            if c['kind'] == 'eq':
                kw['equals'] = np.array(c['equals']) if isinstance(c['equals'], list) else c['equals']
            else:
                for side in ('lower', 'upper'):
                    if c.get(side) is not None:
                        kw[side] = np.array(c[side]) if isinstance(c[side], list) else c[side]
            if c.get('linear'):
                kw['linear'] = True
            m.add_constraint(f'g{k}', **kw)
        p.driver = om.ScipyOptimizeDriver(optimizer=q['opt'], disp=False, tol=1e-10,
                                          maxiter=400 if q['opt'] != 'COBYLA' else 3000)
        p.setup()
        p.set_val('x', np.array(q['x0']))
        raised = None
        try:
            with contextlib.redirect_stdout(io.StringIO()), contextlib.redirect_stderr(io.StringIO()):
                p.run_driver()
        except om.AnalysisError as e:
            raised = 'AnalysisError'
        except Exception as e:      # noqa
            import traceback
            tb = traceback.extract_tb(e.__traceback__)
            if not any((util.REPO + '/') in f.filename or 'scipy' in f.filename for f in tb):
                raise
            raised = type(e).__name__
            res_exc = f"{type(e).__name__}: {str(e)[:300]}"
        res = {'raised': raised, 'fired': list(fired), 'success': None, 'x': None, 'g': None, 'last_x': last_x.get('x'),
               'counts': dict(counts), 'exc': locals().get('res_exc')}
        if raised is None:
            res['success'] = bool(p.driver.result.success)
            res['x'] = np.array(p.get_val('x')).copy()
            res['g'] = [np.array(p.get_val(f'g{k}')).copy() for k in range(len(q['cons']))]
            res['result_x'] = getattr(p.driver, 'result', None)
        st.inc('model_evaluations', counts['compute'])
        results = [res]
        if second is not None and raised is None and res['success'] and not fired:
            p.set_val('tgt', np.array(second['t2']))
            last_x.clear()
            raised2 = None
            try:
                with contextlib.redirect_stdout(io.StringIO()), contextlib.redirect_stderr(io.StringIO()):
                    p.run_driver()
            except om.AnalysisError:
                raised2 = 'AnalysisError'
            except Exception as e:      # noqa
                import traceback
                tb = traceback.extract_tb(e.__traceback__)
                if not any((util.REPO + '/') in f.filename or 'scipy' in f.filename for f in tb):
                    raise
                raised2 = type(e).__name__
                res_exc2 = f"{type(e).__name__}: {str(e)[:300]}"
            res2 = {'raised': raised2, 'fired': list(fired), 'success': None, 'x': None, 'g': None, 'last_x': last_x.get('x'),
                    'counts': dict(counts), 'exc': locals().get('res_exc2')}
            if raised2 is None:
                res2['success'] = bool(p.driver.result.success)
                res2['x'] = np.array(p.get_val('x')).copy()
                res2['g'] = [np.array(p.get_val(f'g{k}')).copy() for k in range(len(q['cons']))]
            results.append(res2)
        return results

    def run(self, plan, keep=False):
        reset_process_state(plan.get('run_seed', 0))
        log = Log(keep)
        st, faults, probes = Counter(), Counter(), Counter()
        viol = []
        q = plan['qp']
        ref = qp_reference(q)
        # precondition kept under shrinking: the start point satisfies the rows declared linear (scipy's
        # keep_feasible requirement for LinearConstraint)
        x0 = np.array(q['x0'])
        for k, rr, a, d, lo, up, e in con_rows(q):
            if q['cons'][k].get('linear') and e is None and not (lo + 1e-9 <= a @ x0 + d <= up - 1e-9):
                return {'viol': [], 'digest': log.digest(), 'stats': st, 'faults': faults, 'probes': Counter(
                    {'start_point_violates_linear_row_void': 1}), 'shape': 'void', 'nontrivial': False, 'sim_time': 0.0}
        variants = [('base', q)]
        if plan.get('twin_scaling'):
            q2 = copy.deepcopy(q)
            q2['dv'], q2['obj'] = {}, {}
            for c in q2['cons']:
                for k in ('scaler', 'adder', 'ref', 'ref0'):
                    c.pop(k, None)
            variants.append(('unscaled-twin', q2))
        xs = {}
        first_x = {}
        jobs = []
        for tag0, qq0 in variants:
            rs = self._solve(qq0, plan.get('fault'), log, st, faults, second=plan.get('second'))
            jobs.append((tag0, qq0, rs[0], ref))
            if len(rs) > 1:
                qq_b = copy.deepcopy(qq0)
                qq_b['t'] = list(plan['second']['t2'])
                jobs.append((tag0 + '/second-run', qq_b, rs[1], qp_reference(qq_b)))
                probes.inc('second_run_driver_after_parameter_change')
        for tag, qq, r, ref in jobs:
            log.ev('result', tag, r['raised'], r['success'], r['x'] if r['x'] is not None else 'none', r['counts'])
            if r['raised'] is not None:
                st.inc('runs_raised')
                if not r['fired']:
                    import re
                    viol.append({'inv': 'I-21-exception', 'msg': f"{tag} ({qq['opt']}): run_driver raised without a fault: "
                                 f"{r['exc'] or r['raised']}",
                                 'ctx': re.sub(r'[-+]?\d[\d.e+-]*', '#', (r['exc'] or r['raised']))[:70]})
                continue
            if r['fired'] and r['success']:
                probes.inc('success_reported_although_a_fault_fired')
            if not r['success']:
                st.inc('not_success')
                continue
            st.inc('success')
            x = r['x']
            first_x.setdefault(tag, x)
            # (a) the model is left at the design the optimizer returned
            if r['last_x'] is not None and np.abs(r['last_x'] - x).max() > 1e-9 * (1 + np.abs(x).max()):
                viol.append({'inv': 'I-21-model-state', 'msg': f"{tag}: design variables hold {x.tolist()} but the last "
                             f"model evaluation was at {r['last_x'].tolist()}"})
                break
            for k, c in enumerate(qq['cons']):
                want = np.array(c['C']) @ x + np.array(c['d'])
                if np.abs(want - r['g'][k]).max() > 1e-8 * (1 + np.abs(want).max()):
                    viol.append({'inv': 'I-21-model-state', 'msg': f"{tag}: constraint outputs are not those of the "
                                 f"returned design"})
                    break
            if viol:
                break
            # (b) every element of every constraint satisfies its own bound
            worst = None
            for k, rr, a, d, lo, up, e in con_rows(qq):
                g = float(a @ x + d)
                if e is not None:
                    v, b = abs(g - e), e
                else:
                    v, b = max(lo - g, g - up, 0.0), (lo if lo - g > g - up else up)
                if v > 1e-5 * (1 + abs(b)):
                    worst = (k, rr, g, lo, up, e, v)
                    break
            if np.any(x < qq['xlo'] - 1e-6) or np.any(x > qq['xup'] + 1e-6):
                worst = ('x', None, x.tolist(), qq['xlo'], qq['xup'], None, 0)
            if worst is not None:
                k, rr, g, lo, up, e, v = worst
                viol.append({'inv': 'I-21-feasible', 'msg': f"{tag} ({qq['opt']}): success reported but constraint g{k}[{rr}] "
                             f"= {g!r} violates lower={lo!r} upper={up!r} equals={e!r} by {v:.3g} at x={x.tolist()} "
                             f"(bounds of the array: lower={qq['cons'][k].get('lower') if k != 'x' else None}, "
                             f"upper={qq['cons'][k].get('upper') if k != 'x' else None})"})
                break
            # (c) the reported design is the optimum -- only when the optimizer saw the convex problem, i.e. no
            # injected NaN / failed evaluation distorted it (feasibility and model state are judged regardless)
            if r['fired']:
                probes.inc('success_after_fault_optimality_not_judged')
                continue
            if qq['opt'] == 'COBYLA':
                # scipy 1.18's COBYLA called with bounds= stops at non-optimal feasible points on these QPs
                # also without OpenMDAO in the loop (checked with plain scipy): optimality is not judged
                if ref is not None and np.abs(x - ref[1]).max() > 2e-3 * (1 + np.abs(ref[1]).max()):
                    probes.inc('cobyla_success_at_suboptimal_point')
                continue
            if ref is None:
                viol.append({'inv': 'I-21-infeasible-success', 'msg': f"{tag}: success on a problem the reference finds infeasible"})
                break
            if qq['opt'] == 'trust-constr' and tag.endswith('/second-run') and \
                    np.abs(x - ref[1]).max() > 2e-3 * (1 + np.abs(ref[1]).max()):
                # The second run starts where the first ended.  When that point sits on an active row or bound,
                # scipy 1.18's trust-constr (an interior-point method started on the boundary) stops early with
                # "gtol satisfied": on a keep_feasible linear row it stays there although the new optimum is
                # interior -- reproduced with plain scipy on the same QP and start (min (1.5(x+0.5))^2/2,
                # -0.5x in [-1.5, 0.5] keep_feasible, x0 = -0.99996 -> -0.9999998, success) -- and on a
                # nonlinear row it ends 2e-3 short of the bound.  Feasibility and model state were judged above.
                xs0 = first_x.get(tag.split('/')[0])
                near = xs0 is not None and (np.any(np.abs(xs0 - qq['xlo']) < 1e-3) or np.any(np.abs(xs0 - qq['xup']) < 1e-3)
                                            or any(e is None and
                                                   min(abs(float(a @ xs0 + d) - lo), abs(float(a @ xs0 + d) - up)) < 1e-3
                                                   for k, rr, a, d, lo, up, e in con_rows(qq)))
                if near:
                    probes.inc('trust_constr_restart_on_active_row_optimality_not_judged')
                    continue
            f_x = 0.5 * float(np.sum((np.array(qq['L']) @ (x - np.array(qq['t']))) ** 2))
            if np.abs(x - ref[1]).max() > 2e-3 * (1 + np.abs(ref[1]).max()) and \
                    f_x - ref[0] <= 1e-6 * (1.0 + abs(ref[0])):
                # optimal in the objective to 1e-6 (and feasible, judged above): with a flat objective
                # (|L| small) the optimizer's stopping tolerance leaves x itself less well determined
                probes.inc('optimum_judged_by_objective_value')
            elif np.abs(x - ref[1]).max() > 2e-3 * (1 + np.abs(ref[1]).max()) and not r.get('twin_checked') and \
                    self._optimizer_itself_suboptimal(qq, first_x.get(tag.split('/')[0]) if tag.endswith('/second-run')
                                                      else np.array(qq['x0']), ref):
                # scipy's optimizer, handed the same problem directly, also reports success away from the optimum
                # (degenerate problems: equalities that force a variable onto its bound make SLSQP stop after two
                # iterations with "Optimization terminated successfully").  The driver conveyed what it was told.
                probes.inc('optimizer_itself_reports_success_away_from_the_optimum')
            elif np.abs(x - ref[1]).max() > 2e-3 * (1 + np.abs(ref[1]).max()):
                viol.append({'inv': 'I-21-optimum', 'msg': f"{tag} ({qq['opt']}): success at x={x.tolist()} but the optimum is "
                             f"{ref[1].tolist()} (f {0.5 * np.sum((np.array(qq['L']) @ (x - np.array(qq['t']))) ** 2):.6g} vs {ref[0]:.6g})"})
                break
            xs[tag] = x
            # active rows at the optimum
            for k, rr, a, d, lo, up, e in con_rows(qq):
                g = float(a @ ref[1] + d)
                if e is not None or abs(g - lo) < 1e-7 or abs(g - up) < 1e-7:
                    probes.inc('active_constraint_at_optimum')
                    break
        nontriv = st.get('success', 0) > 0 and probes.get('active_constraint_at_optimum', 0) > 0
        res = {'viol': viol, 'digest': log.digest(), 'stats': st, 'faults': faults, 'probes': probes,
               'shape': f"{q['opt']}-n{len(q['t'])}-c{len(q['cons'])}-{'F' if plan.get('fault') else 'N'}-"
                        f"{'S' if st.get('success') else 'X'}",
               'nontrivial': nontriv, 'sim_time': 0.0}
        if keep:
            res['events'] = log.events
        return res

    def candidates(self, plan):
        q = plan['qp']
        if plan.get('fault'):
            c = copy.deepcopy(plan)
            c['fault'] = None
            yield c
        if plan.get('twin_scaling'):
            c = copy.deepcopy(plan)
            c['twin_scaling'] = False
            yield c
        if plan.get('second'):
            c = copy.deepcopy(plan)
            c.pop('second')
            yield c
        if len(q['cons']) > 1:
            for i in range(len(q['cons'])):
                c = copy.deepcopy(plan)
                del c['qp']['cons'][i]
                yield c
        for key in ('dv', 'obj'):
            if q[key]:
                c = copy.deepcopy(plan)
                c['qp'][key] = {}
                yield c
        if q['units']:
            c = copy.deepcopy(plan)
            c['qp']['units'] = False
            yield c
        for i, con in enumerate(q['cons']):
            for ks in (('scaler',), ('adder',), ('ref', 'ref0'), ('indices',), ('linear',)):
                if any(con.get(k) for k in ks):     # ref/ref0 only together: a lone ref0 of 1 is ref == ref0
                    c = copy.deepcopy(plan)
                    for k in ks:
                        c['qp']['cons'][i].pop(k, None)
                    yield c
            m = len(con['C'])
            if m > 1 and 'indices' not in con:
                for r in range(m):
                    c = copy.deepcopy(plan)
                    cc = c['qp']['cons'][i]
                    for k in ('C', 'd'):
                        del cc[k][r]
                    for k in ('lower', 'upper', 'equals'):
                        if isinstance(cc.get(k), list):
                            del cc[k][r]
                    yield c
        if q['opt'] != 'SLSQP':
            c = copy.deepcopy(plan)
            c['qp']['opt'] = 'SLSQP'
            yield c

    def signature(self, plan, viol):
        return viol['inv'] + (':' + viol['ctx'] if viol.get('ctx') else '')



# =========================================================================== C23: DOE worlds
UFAC = {None: 1.0, 'cm': 0.01, 'mm': 0.001, 'km': 1000.0}


def gen_doe(rng, tier):
    fam = rng.choice(['doe', 'doe', 'analysis'])
    ndv = rng.randint(1, 3)
    dvs = []
    for k in range(ndv):
        src = rng.randint(1, 4)
        idx = None
        n = src
        if src > 1 and rng.random() < 0.35:
            n = rng.randint(1, src)
            idx = sorted(rng.sample(range(src), n))
            if rng.random() < 0.3:
                idx = [i - src if rng.random() < 0.5 else i for i in idx]      # negative indices
        arr = rng.random() < 0.5
        lo = [dyadic(rng, -4, 2, 2) for _ in range(n)]
        up = [l + rng.choice([0.25, 0.5, 1.0, 3.0, 8.0]) for l in lo]
        if not arr:
            lo, up = lo[0], max(up)
            if up <= lo:
                up = lo + 1.0
        dv = {'name': f'x{k}', 'src_size': src, 'indices': idx, 'n': n, 'lower': lo, 'upper': up,
              'units': rng.choice([None, None, 'cm', 'mm', 'km']),
              'init': [dyadic(rng, -9, 9, 1) for _ in range(src)], 'scale': {}}
        if fam == 'doe':
            r = rng.random()
            if r < 0.2:
                dv['scale'] = {'scaler': rng.choice([2.0, 0.25, -1.0]), 'adder': rng.choice([0.0, 1.5])}
            elif r < 0.4:
                r0 = rng.choice([0.0, 1.0])
                dv['scale'] = {'ref': r0 + rng.choice([4.0, 0.5, -2.0]), 'ref0': r0}
        dvs.append(dv)
    nf = sum(d['n'] for d in dvs)
    kinds = ['fullfact', 'fullfact', 'lhs', 'lhs', 'uniform', 'pb', 'gsd']
    if nf >= 3:
        kinds.append('bb')
    if fam == 'doe':
        kinds += ['list', 'csv']
    kind = rng.choice(kinds)
    g = {'kind': kind}
    if kind in ('fullfact', 'gsd'):
        if rng.random() < 0.5:
            g['levels'] = rng.randint(1 if kind == 'fullfact' else 2, 4)
        else:
            lv = {d['name']: rng.randint(1 if kind == 'fullfact' else 2, 4) for d in dvs if rng.random() < 0.7}
            if rng.random() < 0.5 or not lv:
                lv['default'] = rng.randint(2, 3)
            g['levels'] = lv
        # keep the design small
        def nruns(levels):
            t = 1
            for d in dvs:
                L = levels if isinstance(levels, int) else levels.get(d['name'], levels.get('default', 2))
                t *= L ** d['n']
            return t
        while nruns(g['levels']) > 300:
            if isinstance(g['levels'], int):
                g['levels'] -= 1
            else:
                kmax = max(g['levels'], key=lambda q: g['levels'][q])
                g['levels'][kmax] -= 1
                if g['levels'][kmax] < 2:
                    g['levels'] = 2
        if kind == 'gsd':
            g['reduction'] = rng.randint(2, 3)
            g['n'] = rng.choice([1, 1, 2])
    elif kind == 'lhs':
        g['samples'] = rng.choice([None, rng.randint(1, 9)])
        g['criterion'] = rng.choice([None, None, 'center', 'c', 'maximin', 'm', 'centermaximin', 'cm', 'correlation', 'corr'])
        g['iterations'] = rng.randint(1, 4)
        g['seed'] = rng.choice([None, rng.randint(0, 10 ** 6)])
        if g['criterion'] in ('maximin', 'm', 'centermaximin', 'cm', 'correlation', 'corr'):
            # pydoe's distance / correlation criteria are undefined for fewer than 3 samples or 1 factor
            if (g['samples'] if g['samples'] is not None else nf) < 3:
                g['samples'] = rng.randint(3, 9)
            if nf < 2 and g['criterion'] in ('correlation', 'corr'):
                g['criterion'] = 'maximin'
    elif kind == 'uniform':
        g['num_samples'] = rng.randint(1, 9)
        g['seed'] = rng.choice([None, rng.randint(0, 10 ** 6)])
    elif kind == 'bb':
        g['center'] = rng.choice([None, 1, 2])
    elif kind in ('list', 'csv'):
        ncase = rng.randint(1, 5)
        cases = []
        for _ in range(ncase):
            case = []
            for d in dvs:
                lo = d['lower'] if isinstance(d['lower'], list) else [d['lower']] * d['n']
                up = d['upper'] if isinstance(d['upper'], list) else [d['upper']] * d['n']
                case.append([d['name'], [lo[i] + (up[i] - lo[i]) * rng.choice([0.0, 0.25, 0.5, 1.0]) for i in range(d['n'])]])
            cases.append(case)
        g['cases'] = cases
    plan = {'family': fam, 'dvs': dvs, 'gen': g,
            'rng': [[rng.randint(0, 2 ** 31 - 1), rng.randint(0, 50)] for _ in range(2)],
            'second': rng.choice(['fresh', 'fresh', 'rerun']) if fam == 'doe' else 'fresh',
            'faults': [], 'fault_kind': rng.choice(['analysis_error', 'analysis_error', 'runtime_error', 'nan'])}
    if fam == 'doe' and kind in ('fullfact', 'pb', 'lhs', 'uniform') and len(dvs) >= 2 and rng.random() < 0.3 and \
            not (kind == 'lhs' and g['criterion'] not in (None, 'center', 'c')):
        # (pydoe's distance / correlation criteria have preconditions on the number of factors and samples)
        # one generator object used by two Problems whose design variables differ (nothing in a generator's
        # configuration belongs to one Problem): the second execution drops one design variable
        plan['second'] = 'shared'
        plan['drop'] = rng.randrange(len(dvs))
    if rng.random() < 0.4:
        plan['faults'] = sorted({rng.randint(0, 12) for _ in range(rng.randint(1, 3))})
    return plan


class C23(Check):
    pid = 'C23'
    level = 'exploration'
    engine = 'drvsim'
    rule = ("plans = seeded design-variable sets (1-3 variables, 1-4 elements, scalar/array bounds, indices incl. negative, "
            "units, driver scaling) x generator (FullFactorial int/dict levels, GSD, PlackettBurman, BoxBehnken, "
            "LatinHypercube with every criterion, Uniform, List, CSV) x driver family (DOEDriver with doe_generators; "
            "AnalysisDriver with drivers/sampling generators); the simulator perturbs the global NumPy RNG before each "
            "of two executions (same Problem re-run or fresh Problem) and makes a seeded subset of model evaluations "
            "fail (AnalysisError / RuntimeError / NaN output); distinct = event-log digests; non-trivial = at least "
            "two cases were generated and every one of them was matched against a model evaluation")
    assumptions = ["the generator's emitted cases are observed by a pass-through wrapper around the real generator object; "
                   "the model's received values by the stub component's compute",
                   "generated values are compared with received values to 1e-12 relative (unit conversion is one multiplication)",
                   "Latin-hypercube strata are judged on the emitted unit-cube position (v - lower)/(upper - lower) with a 1e-9 guard at stratum edges",
                   "CSV cases are written with repr() precision by the harness",
                   "hash seed is pinned (PYTHONHASHSEED=0); reproducibility is judged across two executions in one interpreter with different ambient RNG state"]
    real = ['DOEDriver', 'AnalysisDriver', 'doe_generators.*', 'drivers/sampling/*', 'pydoe 1.5', 'Driver._set_design_var', 'Problem.set_val']
    stubs = ['summing stub component recording every evaluation', 'fault plan on evaluations', 'global RNG perturbation events']

    def budget(self, tier):
        if tier == 'thorough':
            return {'runs': 80000, 'time': 1200.0, 'run_cap': 60.0, 'selftest': 100}
        return {'runs': 3000, 'time': 50.0, 'run_cap': 60.0, 'selftest': 12}

    def gen(self, rng, tier):
        return gen_doe(rng, tier)

    # ----------------------------------------------------------------- building
    def _make_generator(self, plan, emitted, scratch_tag, inner=None):
        import openmdao.api as om
        g = plan['gen']
        fam = plan['family']
        k = g['kind']
        if fam == 'doe':
            import openmdao.drivers.doe_generators as G
            if inner is not None:
                pass
            elif k == 'fullfact':
                lv = g['levels']
                inner = G.FullFactorialGenerator(levels=dict(lv) if isinstance(lv, dict) else lv)
            elif k == 'gsd':
                lv = g['levels']
                inner = G.GeneralizedSubsetGenerator(levels=dict(lv) if isinstance(lv, dict) else lv,
                                                     reduction=g['reduction'], n=g['n'])
            elif k == 'pb':
                inner = G.PlackettBurmanGenerator()
            elif k == 'bb':
                inner = G.BoxBehnkenGenerator(center=g['center'])
            elif k == 'lhs':
                inner = G.LatinHypercubeGenerator(samples=g['samples'], criterion=g['criterion'],
                                                  iterations=g['iterations'], seed=g['seed'])
            elif k == 'uniform':
                inner = G.UniformGenerator(num_samples=g['num_samples'], seed=g['seed'])
            elif k == 'list':
                inner = G.ListGenerator([[(n, np.array(v)) for n, v in case] for case in g['cases']])
            elif k == 'csv':
                import os
                from dst.core import util
                os.makedirs(util.SCRATCH, exist_ok=True)
                fn = os.path.join(util.SCRATCH, f"doe-{os.getpid()}-{scratch_tag}.csv")
                with open(fn, 'w') as f:
                    names = [n for n, _ in g['cases'][0]]
                    f.write(','.join(names) + '\n')
                    for case in g['cases']:
                        f.write(','.join('"[' + ' '.join(repr(float(x)) for x in v) + ']"' for _, v in case) + '\n')
                inner = G.CSVGenerator(fn)

            class Tap(G.DOEGenerator):
                def __call__(self, design_vars, model=None):
                    for case in inner(design_vars, model):
                        emitted.append([(n, np.array(v, dtype=float).copy()) for n, v in case])
                        yield case
            self._inner_generator = inner
            return Tap()
        from openmdao.drivers.sampling import pyDOE_generators as P
        from openmdao.drivers.sampling.uniform_generator import UniformGenerator as UG
        vd = {}
        for d in plan['dvs']:
            m = {'lower': np.array(d['lower']) if isinstance(d['lower'], list) else d['lower'],
                 'upper': np.array(d['upper']) if isinstance(d['upper'], list) else d['upper']}
            if not isinstance(d['lower'], list) and d['n'] > 1:
                m['lower'] = np.full(d['n'], d['lower'])
                m['upper'] = np.full(d['n'], d['upper'])
            if d['units']:
                m['units'] = d['units']
            if d['indices'] is not None:
                m['indices'] = list(d['indices'])
            vd[d['name']] = m
        if k == 'fullfact':
            lv = g['levels']
            gen = P.FullFactorialGenerator(vd, levels=dict(lv) if isinstance(lv, dict) else lv)
        elif k == 'gsd':
            lv = g['levels']
            gen = P.GeneralizedSubsetGenerator(vd, levels=dict(lv) if isinstance(lv, dict) else lv,
                                               reduction=g['reduction'], n=g['n'])
        elif k == 'pb':
            gen = P.PlackettBurmanGenerator(vd)
        elif k == 'bb':
            gen = P.BoxBehnkenGenerator(vd, center=g['center'])
        elif k == 'lhs':
            gen = P.LatinHypercubeGenerator(vd, samples=g['samples'], criterion=g['criterion'],
                                            iterations=g['iterations'], seed=g['seed'])
        elif k == 'uniform':
            gen = UG(vd, num_samples=g['num_samples'], seed=g['seed'])
        base = type(gen)

        class TapA(base):
            def __next__(self):
                d = base.__next__(self)
                emitted.append([(n, np.array(m['val'], dtype=float).copy()) for n, m in d.items()])
                return d
        gen.__class__ = TapA
        return gen

    def _build(self, plan, emitted, trace, fault_state, tag, inner=None):
        import openmdao.api as om
        dvs = plan['dvs']

        class Stub(om.ExplicitComponent):
            def setup(self):
                for d in dvs:
                    self.add_input(d['name'], np.zeros(d['src_size']), units='m' if d['units'] else None)
                self.add_output('y', 0.0)

            def compute(self, i, o):
                k = fault_state['n']
                fault_state['n'] += 1
                trace.append({d['name']: np.array(i[d['name']]).copy() for d in dvs})
                o['y'] = sum(float(np.sum(i[d['name']])) for d in dvs)
                if k in fault_state['at']:
                    fault_state['fired'].append(k)
                    if plan['fault_kind'] == 'analysis_error':
                        raise om.AnalysisError('sim-fault')
                    if plan['fault_kind'] == 'runtime_error':
                        raise RuntimeError('sim-fault')
                    o['y'] = np.nan

        p = om.Problem(name='d' + tag)
        p.model.add_subsystem('c', Stub(), promotes=['*'])
        gen = self._make_generator(plan, emitted, tag, inner=inner)
        if plan['family'] == 'doe':
            for d in dvs:
                kw = dict(d['scale'])
                if d['units']:
                    kw['units'] = d['units']
                if d['indices'] is not None:
                    kw['indices'] = list(d['indices'])
                p.model.add_design_var(d['name'], lower=np.array(d['lower']) if isinstance(d['lower'], list) else d['lower'],
                                       upper=np.array(d['upper']) if isinstance(d['upper'], list) else d['upper'], **kw)
            p.model.add_objective('y')
            p.driver = om.DOEDriver(gen)
        else:
            p.driver = om.AnalysisDriver(samples=gen)
            p.driver.add_response('y')
        p.setup()
        for d in dvs:
            p.set_val(d['name'], np.array(d['init']), units='m' if d['units'] else None)
        return p

    # ----------------------------------------------------------------- laws
    def _bounds(self, d):
        lo = np.array(d['lower'] if isinstance(d['lower'], list) else [d['lower']] * d['n'], dtype=float)
        up = np.array(d['upper'] if isinstance(d['upper'], list) else [d['upper']] * d['n'], dtype=float)
        return lo, up

    def _levels_of(self, plan, d):
        lv = plan['gen'].get('levels')
        if isinstance(lv, int):
            return lv
        return lv.get(d['name'], lv.get('default', 2))

    def _laws(self, plan, emitted, viol, probes, tag):
        g = plan['gen']
        k = g['kind']
        dvs = plan['dvs']
        names = [d['name'] for d in dvs]
        for ci, case in enumerate(emitted):
            if [n for n, _ in case] != names:
                # the analysis family keys by the names given; the DOE family by the names given to add_design_var
                viol.append({'inv': 'I-23-case-shape', 'msg': f"{tag}: case {ci} names {[n for n, _ in case]} != {names}"})
                return
            for d, (n, v) in zip(dvs, case):
                lo, up = self._bounds(d)
                if v.size != d['n']:
                    viol.append({'inv': 'I-23-case-shape', 'msg': f"{tag}: case {ci}: {n} has {v.size} values, expected {d['n']}"})
                    return
                tol = 1e-12 * (1 + np.maximum(np.abs(lo), np.abs(up)))
                if k not in ('list', 'csv') and (np.any(v.ravel() < lo - tol) or np.any(v.ravel() > up + tol)):
                    viol.append({'inv': 'I-23-bounds', 'msg': f"{tag}: {k} case {ci}: {n} = {v.tolist()} outside "
                                 f"[{lo.tolist()}, {up.tolist()}]", 'ctx': k})
                    return
        if not emitted:
            return
        # flattened factor table
        F = np.array([np.concatenate([v.ravel() for _, v in case]) for case in emitted])
        lo = np.concatenate([self._bounds(d)[0] for d in dvs])
        up = np.concatenate([self._bounds(d)[1] for d in dvs])
        nf = len(lo)
        if k in ('fullfact', 'gsd', 'pb', 'bb'):
            L = np.concatenate([[self._levels_of(plan, d) if k in ('fullfact', 'gsd') else (2 if k == 'pb' else 3)] * d['n']
                                for d in dvs]).astype(int)
            idx = np.zeros(F.shape, dtype=int)
            for j in range(nf):
                lev = np.linspace(lo[j], up[j], L[j])
                dist = np.abs(F[:, j][:, None] - lev[None, :])
                idx[:, j] = dist.argmin(axis=1)
                if dist.min(axis=1).max() > 1e-12 * (1 + abs(lo[j]) + abs(up[j])):
                    viol.append({'inv': 'I-23-levels', 'msg': f"{tag}: {k}: factor {j} takes a value that is not one of its "
                                 f"{L[j]} evenly spaced levels between {lo[j]} and {up[j]}: {sorted(set(F[:, j].tolist()))}",
                                 'ctx': k})
                    return
            rows = [tuple(r) for r in idx.tolist()]
            if k == 'fullfact':
                want = set(itertools.product(*[range(x) for x in L]))
                if len(rows) != len(want) or set(rows) != want:
                    viol.append({'inv': 'I-23-fullfact', 'msg': f"{tag}: full factorial with levels {g['levels']} over factors "
                                 f"{[(d['name'], d['n']) for d in dvs]} produced {len(rows)} cases ({len(set(rows))} distinct); "
                                 f"the product of the requested levels has {len(want)}"})
                    return
                probes.inc('fullfact_product_checked')
            elif k == 'pb':
                if len(rows) % 4 or len(rows) <= nf - 0 and len(rows) < nf + 1:
                    viol.append({'inv': 'I-23-pb', 'msg': f"{tag}: Plackett-Burman for {nf} factors produced {len(rows)} runs"})
                    return
                for j in range(nf):
                    if 2 * int(idx[:, j].sum()) != len(rows):
                        viol.append({'inv': 'I-23-pb', 'msg': f"{tag}: Plackett-Burman column {j} is not balanced"})
                        return
            elif k == 'gsd':
                if len(set(rows)) != len(rows) and g['n'] == 1:
                    viol.append({'inv': 'I-23-gsd', 'msg': f"{tag}: generalized subset design repeats a run"})
                    return
        if k == 'lhs':
            ns = g['samples'] if g['samples'] is not None else nf
            if g['samples'] is None and plan.get('first_nf') is not None and len(F) == plan['first_nf']:
                # a generator object that served another Problem first keeps the default sample count (number of
                # factors) it derived then; the strata law below is judged for the count it emits
                ns = len(F)
                probes.inc('lhs_default_sample_count_kept_from_first_problem')
            if len(F) != ns:
                viol.append({'inv': 'I-23-lhs', 'msg': f"{tag}: latin hypercube with samples={g['samples']} over {nf} factors "
                             f"produced {len(F)} cases"})
                return
            U = (F - lo[None, :]) / (up - lo)[None, :]
            for j in range(nf):
                s = np.floor(np.clip(U[:, j], 0, 1 - 1e-15) * ns + 0.0).astype(int)
                # guard: a point within 1e-9 of a stratum edge may belong to either side
                frac = U[:, j] * ns - np.round(U[:, j] * ns)
                if np.any(np.abs(frac) < 1e-9):
                    probes.inc('lhs_point_on_stratum_edge_not_judged')
                    continue
                if sorted(s.tolist()) != list(range(ns)):
                    viol.append({'inv': 'I-23-lhs', 'msg': f"{tag}: latin hypercube (criterion={g['criterion']}, samples={ns}): "
                                 f"factor {j} strata occupied {sorted(s.tolist())}, expected one sample in each of {ns}",
                                 'ctx': str(g['criterion'])})
                    return
                if g['criterion'] in ('center', 'c', 'centermaximin', 'cm'):
                    if np.abs(U[:, j] * ns - s - 0.5).max() > 1e-9:
                        viol.append({'inv': 'I-23-lhs', 'msg': f"{tag}: centered latin hypercube sample is not at its stratum centre"})
                        return
            probes.inc('lhs_strata_checked')
        if k == 'uniform' and len(F) != g['num_samples']:
            viol.append({'inv': 'I-23-uniform', 'msg': f"{tag}: uniform generator produced {len(F)} of {g['num_samples']} samples"})
        if k in ('list', 'csv'):
            want = [np.concatenate([np.array(v, dtype=float) for _, v in case]) for case in g['cases']]
            if len(want) != len(F) or any(not np.array_equal(a, b) for a, b in zip(want, F)):
                viol.append({'inv': 'I-23-list', 'msg': f"{tag}: {k} generator did not yield the provided cases exactly", 'ctx': k})

    def _trace_law(self, plan, emitted, trace, viol, tag, fired):
        dvs = plan['dvs']
        if len(trace) != len(emitted):
            viol.append({'inv': 'I-23-trace', 'msg': f"{tag}: {len(emitted)} cases generated but the model was evaluated "
                         f"{len(trace)} times (faults fired at evaluations {fired}, kind {plan['fault_kind']})",
                         'ctx': 'count'})
            return False
        for ci, (case, got) in enumerate(zip(emitted, trace)):
            for d, (n, v) in zip(dvs, case):
                want = np.array(d['init'], dtype=float)
                sel = list(range(d['src_size'])) if d['indices'] is None else [i % d['src_size'] for i in d['indices']]
                want[sel] = v.ravel() * UFAC[d['units']]
                if np.abs(got[d['name']].ravel() - want).max() > 1e-12 * (1 + np.abs(want).max()):
                    viol.append({'inv': 'I-23-trace', 'msg': f"{tag}: case {ci}: generator emitted {n} = {v.tolist()} "
                                 f"({d['units']}, indices {d['indices']}) but the model was evaluated with "
                                 f"{got[d['name']].tolist()} (expected {want.tolist()})", 'ctx': 'value'})
                    return False
        return True

    def run(self, plan, keep=False):
        reset_process_state(plan.get('run_seed', 0))
        log = Log(keep)
        st, faults, probes = Counter(), Counter(), Counter()
        viol = []
        runs = []
        p = None
        # seam: numpy's entropy-seeded default_rng() (used by pydoe's lhs when no seed is given) draws its seed
        # from the simulator instead of the operating system
        orig_default_rng = np.random.default_rng
        entropy = [0]

        def sim_default_rng(seed=None, *a, **kw):
            import sys as _sys
            if seed is None and _sys._getframe(1).f_globals.get('__name__', '').startswith('pydoe'):
                # (only the generator's own request: lazily imported modules may build private generators at
                # import time, once per process)
                entropy[0] += 1
                probes.inc('os_entropy_requests_served_by_simulator')
                seed = [int(plan.get('run_seed', 0)) % (2 ** 63), entropy[0]]
            return orig_default_rng(seed, *a, **kw)
        np.random.default_rng = sim_default_rng
        try:
            return self._run(plan, keep, log, st, faults, probes, viol, runs)
        finally:
            np.random.default_rng = orig_default_rng

    def _run(self, plan, keep, log, st, faults, probes, viol, runs):
        p = None
        for r in range(2):
            seed, ndraw = plan['rng'][r]
            np.random.seed(seed)
            for _ in range(ndraw):
                np.random.random()
            probes.inc('rng_perturbations')
            emitted, trace = [], []
            fs = {'n': 0, 'at': set(plan['faults']), 'fired': []}
            try:
                with contextlib.redirect_stdout(io.StringIO()), contextlib.redirect_stderr(io.StringIO()):
                    if r == 1 and plan['second'] == 'shared':
                        plan_r = copy.deepcopy(plan)
                        del plan_r['dvs'][plan['drop']]
                        plan_r['first_nf'] = sum(d['n'] for d in plan['dvs'])
                        p = self._build(plan_r, emitted, trace, fs, str(r), inner=self._inner_generator)
                        probes.inc('generator_object_shared_by_two_problems')
                    elif r == 0 or plan['second'] == 'fresh':
                        plan_r = plan
                        p = self._build(plan, emitted, trace, fs, str(r))
                        holder = {'emitted': emitted, 'trace': trace, 'fs': fs}
                    else:
                        # same Problem: its wrapper appends to the first run's lists; cut them afterwards
                        holder_prev = (len(holder['emitted']), len(holder['trace']))
                        holder['fs']['n'] = 0
                        holder['fs']['fired'] = []
                    p.run_driver()
            except Exception as e:      # noqa
                import traceback
                import re
                tb = traceback.extract_tb(e.__traceback__)
                if not any((util.REPO + '/') in f.filename or 'pydoe' in f.filename for f in tb):
                    raise
                msg = f"{type(e).__name__}: {str(e)[:300]}"
                if plan['gen']['kind'] == 'gsd' and 'reduction too large' in str(e):
                    # documented pydoe precondition of gsd(levels, reduction)
                    return {'viol': [], 'digest': log.digest(), 'stats': st, 'faults': faults, 'probes': Counter(
                        {'gsd_reduction_too_large_void': 1}), 'shape': 'void', 'nontrivial': False, 'sim_time': 0.0}
                viol.append({'inv': 'I-23-exception', 'msg': f"run {r}: {msg} (at {tb[-1].filename.split('/')[-1]}:{tb[-1].lineno})",
                             'ctx': type(e).__name__ + ':' + re.sub(r'[-+]?\d[\d.e+-]*', '#', str(e))[:60]})
                break
            if r == 1 and plan['second'] == 'rerun':
                emitted = holder['emitted'][holder_prev[0]:]
                trace = holder['trace'][holder_prev[1]:]
                fs = holder['fs']
                probes.inc('second_execution_on_same_problem')
            for kf in fs['fired']:
                faults.inc(plan['fault_kind'])
            st.inc('cases', len(emitted))
            log.ev('run', r, len(emitted), len(trace), [[(n, v) for n, v in c] for c in emitted][:400])
            self._laws(plan_r, emitted, viol, probes, f"run {r}")
            if viol:
                break
            if not self._trace_law(plan_r, emitted, trace, viol, f"run {r}", fs['fired']):
                break
            if fs['fired'] and len(emitted) > max(fs['fired']) + 1:
                probes.inc('cases_evaluated_after_a_failed_case')
            runs.append(list(emitted))
        if not viol and len(runs) == 2 and plan['second'] != 'shared':
            g = plan['gen']
            seeded = g['kind'] not in ('lhs', 'uniform') or g.get('seed') is not None
            same = len(runs[0]) == len(runs[1]) and all(
                all(np.array_equal(a[1], b[1]) for a, b in zip(c0, c1)) for c0, c1 in zip(runs[0], runs[1]))
            if seeded:
                probes.inc('reproducibility_checked')
                if not same:
                    viol.append({'inv': 'I-23-reproducible', 'msg': f"{g['kind']} (seed={g.get('seed')}) generated different "
                                 f"cases in two executions ({plan['second']}) that differ only in the ambient global RNG state: "
                                 f"{len(runs[0])} vs {len(runs[1])} cases", 'ctx': g['kind'] + ':' + plan['second']})
            elif not same:
                probes.inc('unseeded_generator_varied_with_rng_state')
        nontriv = not viol and len(runs) == 2 and len(runs[0]) >= 2
        res = {'viol': viol, 'digest': log.digest(), 'stats': st, 'faults': faults, 'probes': probes,
               'shape': f"{plan['family']}-{plan['gen']['kind']}-{len(plan['dvs'])}-{plan['second']}-"
                        f"{'F' if plan['faults'] else 'N'}",
               'nontrivial': nontriv, 'sim_time': 0.0}
        if keep:
            res['events'] = log.events
        return res

    def candidates(self, plan):
        if plan['faults']:
            c = copy.deepcopy(plan)
            c['faults'] = []
            yield c
        if plan['second'] != 'fresh':
            c = copy.deepcopy(plan)
            c['second'] = 'fresh'
            yield c
        if len(plan['dvs']) > 1 and plan['gen']['kind'] not in ('list', 'csv'):
            for i in range(len(plan['dvs'])):
                c = copy.deepcopy(plan)
                nm = c['dvs'][i]['name']
                del c['dvs'][i]
                if isinstance(c['gen'].get('levels'), dict):
                    c['gen']['levels'].pop(nm, None)
                    if not c['gen']['levels']:
                        c['gen']['levels'] = 2
                nf_ = sum(d['n'] for d in c['dvs'])
                g_ = c['gen']
                if g_['kind'] == 'lhs' and g_.get('criterion') in ('maximin', 'm', 'centermaximin', 'cm', 'correlation', 'corr'):
                    # keep pydoe's preconditions (see gen_doe): >= 3 samples, >= 2 factors for correlation
                    if (g_['samples'] if g_['samples'] is not None else nf_) < 3 or \
                            (nf_ < 2 and g_['criterion'] in ('correlation', 'corr')):
                        continue
                if c.get('second') == 'shared':
                    if len(c['dvs']) < 2:
                        c['second'] = 'fresh'
                    else:
                        c['drop'] = min(c.get('drop', 0), len(c['dvs']) - 1)
                if g_['kind'] != 'bb' or nf_ >= 3:
                    yield c
        for i, d in enumerate(plan['dvs']):
            for key, val in (('scale', {}), ('units', None)):
                if d[key]:
                    c = copy.deepcopy(plan)
                    c['dvs'][i][key] = val
                    yield c
            if d['indices'] is not None and plan['gen']['kind'] not in ('list', 'csv', 'bb'):
                c = copy.deepcopy(plan)
                dd = c['dvs'][i]
                dd['indices'] = None
                dd['src_size'] = dd['n']
                dd['init'] = dd['init'][:dd['n']]
                yield c
        for r in range(2):
            if plan['rng'][r][1]:
                c = copy.deepcopy(plan)
                c['rng'][r][1] = 0
                yield c

    def signature(self, plan, viol):
        return viol['inv'] + (':' + viol['ctx'] if viol.get('ctx') else '')


CHECKS = {'C21': C21(), 'C23': C23()}
