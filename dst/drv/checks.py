"""drvsim: drivers calling back into (failing) stub models.  C21 (optimizer success => feasible,
optimal, model left at the returned design) and C23 (DOE generators)."""
import contextlib
import copy
import io
import itertools

import numpy as np

from dst.core.driver import Check
from dst.core.shrink import drop_from_list
from dst.core.util import Log, Counter, reset_process_state, dyadic

INF = 1e30


# =========================================================================== QP worlds
def gen_qp(rng):
    opt = rng.choice(['SLSQP', 'SLSQP', 'COBYLA', 'trust-constr'])
    n = rng.randint(1, 3)
    ncon = rng.randint(1, 2)            # constraint arrays
    L = (np.eye(n) + np.array([[dyadic(rng, -2, 2, 4) for _ in range(n)] for _ in range(n)]) * 0.5)
    if abs(np.linalg.det(L)) < 0.2:
        L = np.eye(n)
    t = [dyadic(rng, -3, 3, 2) for _ in range(n)]
    x0 = [dyadic(rng, -1, 1, 2) for _ in range(n)]
    cons = []
    for k in range(ncon):
        m = rng.randint(1, 3)
        C = [[dyadic(rng, -2, 2, 2) for _ in range(n)] for _ in range(m)]
        for r in range(m):
            if not any(C[r]):
                C[r][rng.randrange(n)] = 1.0
        # no two constraint rows of the problem are parallel (degenerate active sets stall SLSQP legitimately)
        prev = [row for c_ in cons for row in c_['C']]
        for r in range(m):
            for _try in range(20):
                others = prev + C[:r]
                if n == 1 or not any(np.linalg.matrix_rank(np.array([C[r], o])) < 2 for o in others):
                    break
                C[r] = [dyadic(rng, -2, 2, 2) for _ in range(n)]
                if not any(C[r]):
                    C[r][rng.randrange(n)] = 1.0
        d = [dyadic(rng, -2, 2, 2) for _ in range(m)]
        g0 = (np.array(C) @ np.array(x0) + np.array(d)).tolist()
        kind = rng.choice(['ineq', 'ineq', 'ineq', 'eq'])
        if opt == 'COBYLA':
            kind = 'ineq'       # documented: equality constraints are supported by SLSQP / trust-constr only
        if kind == 'eq' and (any(c_['kind'] == 'eq' for c_ in cons) or
                             np.linalg.matrix_rank(np.array(C[:min(m, n)])) < min(m, n) or n == 1 and m > 1):
            kind = 'ineq'       # at most one, full-rank, equality block (fewer rows than variables allow)
        # scipy's keep_feasible needs a start point that satisfies linear constraints: only inequality rows,
        # whose bounds are drawn around the start point, are declared linear
        con = {'C': C, 'd': d, 'kind': kind, 'linear': kind == 'ineq' and rng.random() < 0.25}
        if kind == 'eq':
            m = min(m, n)
            con['C'], con['d'] = C[:m], d[:m]
            con['equals'] = [g0[r] + dyadic(rng, -1, 1, 2) for r in range(m)]
            if rng.random() < 0.4:
                con['equals'] = con['equals'][0]
        else:
            lo, up = [], []
            for r in range(m):
                pat = rng.choice(['lower', 'upper', 'both'])
                lo.append(g0[r] - dyadic(rng, 0, 2, 2) if pat in ('lower', 'both') else -INF)
                up.append(g0[r] + dyadic(rng, 0, 2, 2) if pat in ('upper', 'both') else INF)
                if pat == 'both' and up[-1] == lo[-1]:
                    up[-1] += 0.5          # a two-sided row is not an equality in disguise
                if con['linear'] or opt == 'COBYLA':     # (scipy's COBYLA with bounds= also stalls on a vertex start)
                    # scipy's keep_feasible start-point test is strict to the last bit and a start on a
                    # vertex of linear rows degenerates: linear rows start strictly inside their bounds
                    if lo[-1] > -INF and lo[-1] > g0[r] - 0.5:
                        lo[-1] = g0[r] - 0.5
                    if up[-1] < INF and up[-1] < g0[r] + 0.5:
                        up[-1] = g0[r] + 0.5
            form = rng.choice(['array', 'array', 'scalar'])
            if form == 'scalar':
                # one scalar bound for the whole array (only sides every row has)
                con['lower'] = min(lo) if all(v > -INF for v in lo) else None
                con['upper'] = max(up) if all(v < INF for v in up) else None
                if con['lower'] is None and con['upper'] is None:
                    con['upper'] = max(v for v in up if v < INF) if any(v < INF for v in up) else None
                    con['lower'] = None if con['upper'] is not None else min(v for v in lo if v > -INF)
            else:
                con['lower'] = lo if any(v > -INF for v in lo) else None
                con['upper'] = up if any(v < INF for v in up) else None
            if rng.random() < 0.25 and len(con['C']) > 1:
                m2 = len(con['C'])
                con['indices'] = sorted(rng.sample(range(m2), rng.randint(1, m2)))
                for side in ('lower', 'upper'):
                    if isinstance(con.get(side), list):
                        con[side] = [con[side][i] for i in con['indices']]     # bounds are per selected element
        r = rng.random()
        if r < 0.2:
            con['scaler'], con['adder'] = rng.choice([2.0, 0.5, 10.0]), rng.choice([0.0, 1.0])
        elif r < 0.4:
            con['ref0'] = rng.choice([0.0, 1.0, -1.0])
            con['ref'] = con['ref0'] + rng.choice([2.0, 10.0, 0.5])       # positive driver scaling
        cons.append(con)
    q = {'L': L.tolist(), 't': t, 'x0': x0, 'cons': cons, 'xlo': -5.0, 'xup': 5.0,
         'opt': opt,
         'dv': {}, 'obj': {}, 'units': rng.random() < 0.3}
    r = rng.random()
    if r < 0.25:
        q['dv'] = {'scaler': rng.choice([2.0, 0.25, 4.0]), 'adder': rng.choice([0.0, 0.5])}
    elif r < 0.45:
        r0 = rng.choice([0.0, 1.0])
        q['dv'] = {'ref': r0 + rng.choice([3.0, 0.5]), 'ref0': r0}
    if rng.random() < 0.3:
        q['obj'] = {'scaler': rng.choice([2.0, 0.1, 100.0])}
    if q['units']:
        # the design variable is expressed in cm (values 100x the model's): keep the optimizer's variables
        # O(1) with the declared scaling, otherwise SLSQP's ftol stops early on the flattened objective
        q['dv'] = rng.choice([{'scaler': 0.01, 'adder': 0.0}, {'scaler': 0.02, 'adder': 50.0},
                              {'ref': 100.0, 'ref0': 0.0}, {'ref': 150.0, 'ref0': 50.0}])
    elif q['dv'].get('scaler') == 10.0:
        q['dv']['scaler'] = 4.0
    return q


def con_rows(q):
    """Every scalar constraint element as (row, d, lower, upper, equals) in model units, honouring indices."""
    rows = []
    for k, c in enumerate(q['cons']):
        m = len(c['C'])
        idx = c.get('indices', list(range(m)))
        for pos, r in enumerate(idx):
            def pick(v, dflt):
                if v is None:
                    return dflt
                if isinstance(v, list):
                    return v[pos] if len(v) == len(idx) else v[r]
                return v
            if c['kind'] == 'eq':
                e = pick(c['equals'], None)
                rows.append((k, r, np.array(c['C'][r]), c['d'][r], None, None, e))
            else:
                rows.append((k, r, np.array(c['C'][r]), c['d'][r], pick(c.get('lower'), -INF), pick(c.get('upper'), INF), None))
    return rows


def qp_reference(q):
    """Active-set / KKT enumeration of  min 1/2 |L(x-t)|^2  s.t. rows, variable bounds."""
    L, t = np.array(q['L']), np.array(q['t'])
    n = len(t)
    H = L.T @ L
    c = -H @ t
    eqs, ineqs = [], []
    for k, r, a, d, lo, up, e in con_rows(q):
        if e is not None:
            eqs.append((a, e - d))
        else:
            if lo > -INF:
                ineqs.append((a, lo - d))
            if up < INF:
                ineqs.append((a, up - d))
    for j in range(n):
        ej = np.zeros(n)
        ej[j] = 1
        ineqs.append((ej, q['xlo']))
        ineqs.append((ej, q['xup']))

    def feas(x):
        if np.any(x < q['xlo'] - 1e-9) or np.any(x > q['xup'] + 1e-9):
            return False
        for k, r, a, d, lo, up, e in con_rows(q):
            g = a @ x + d
            if e is not None:
                if abs(g - e) > 1e-8:
                    return False
            elif g < lo - 1e-9 or g > up + 1e-9:
                return False
        return True
    best = None
    ne = len(eqs)
    for k in range(0, max(0, n - ne) + 1):
        for act in itertools.combinations(range(len(ineqs)), k):
            rows = eqs + [ineqs[i] for i in act]
            kk = len(rows)
            if kk:
                A = np.array([r_[0] for r_ in rows]).reshape(kk, n)
                b = np.array([r_[1] for r_ in rows])
                K = np.block([[H, A.T], [A, np.zeros((kk, kk))]])
                rhs = np.concatenate([-c, b])
            else:
                K, rhs = H, -c
            try:
                sol = np.linalg.solve(K, rhs)
            except np.linalg.LinAlgError:
                continue
            x = sol[:n]
            if feas(x):
                f = 0.5 * np.sum((L @ (x - t)) ** 2)
                if best is None or f < best[0] - 1e-12:
                    best = (f, x)
    return best


class C21(Check):
    pid = 'C21'
    level = 'exploration'
    engine = 'drvsim'
    rule = ("plans = strictly convex QPs (1-3 variables, 1-2 constraint arrays with 1-3 rows) with seeded PER-ELEMENT "
            "bound patterns (lower/upper/both/equality, scalar and array forms, indices), linear and nonlinear "
            "flags, driver scalings on design variables, objective and constraints, optimizer in {SLSQP, COBYLA, "
            "trust-constr}; the optimizer is real scipy and decides the callback schedule, the simulator decides which "
            "model evaluations fail (AnalysisError / NaN at the k-th evaluation or linearisation; fault-free and "
            "fault-injecting configurations are separate runs); distinct = event-log digests; non-trivial = the "
            "driver reported success and at least one constraint row is active at the reference optimum")
    assumptions = ["feasibility tolerance 1e-5 (1 + |bound|) in model units; optimum tolerance 2e-3 relative (optimizer tol 1e-10)",
                   "optimality is judged for SLSQP and trust-constr; scipy 1.18 COBYLA with bounds= stalls at suboptimal feasible points by itself (reproduced without OpenMDAO), so for COBYLA only model state and feasibility are judged",
                   "generator preconditions: positive driver scalings, O(1) scaled variables, no parallel constraint rows, at most one full-rank equality block, no equality rows for COBYLA (documented), start strictly inside rows declared linear",
                   "reference optimum by exhaustive active-set/KKT enumeration in NumPy (<= 3 variables, <= 6 rows + bounds)",
                   "when an injected fault surfaces as an exception there is no success to judge; the exception must surface"]
    real = ['ScipyOptimizeDriver', 'scipy.optimize.minimize (SLSQP, COBYLA, trust-constr)', 'autoscaler / driver scaling',
            'total derivatives of the stub model']
    stubs = ['QP stub component (objective + constraint arrays)', 'fault plan on model evaluations']

    def budget(self, tier):
        if tier == 'thorough':
            return {'runs': 60000, 'time': 1200.0, 'run_cap': 120.0, 'selftest': 100}
        return {'runs': 2000, 'time': 55.0, 'run_cap': 120.0, 'selftest': 12}

    def gen(self, rng, tier):
        q = gen_qp(rng)
        plan = {'qp': q, 'fault': None, 'twin_scaling': rng.random() < 0.3}
        if rng.random() < 0.25:
            plan['fault'] = {'method': rng.choice(['compute', 'compute', 'compute_partials']), 'n': rng.randint(1, 12),
                             'kind': rng.choice(['analysis_error', 'nan'])}
        return plan

    def _solve(self, q, fault, log, st, faults):
        import openmdao.api as om
        L, t = np.array(q['L']), np.array(q['t'])
        counts = {'compute': 0, 'compute_partials': 0}
        last_x = {}
        fired = []

        class QP(om.ExplicitComponent):
            def setup(self):
                n = len(t)
                self.add_input('x', np.zeros(n), units='m' if q['units'] else None)
                self.add_output('f', 0.0)
                self.declare_partials('f', 'x')
                for k, c in enumerate(q['cons']):
                    self.add_output(f'g{k}', np.zeros(len(c['C'])))
                    self.declare_partials(f'g{k}', 'x', val=np.array(c['C']))

            def _hit(self, m):
                counts[m] += 1
                if fault and fault['method'] == m and fault['n'] == counts[m] and not fired:
                    fired.append(fault['kind'])
                    faults.inc(fault['kind'] + ':' + m)
                    if fault['kind'] == 'analysis_error':
                        raise om.AnalysisError('sim-fault')
                    return 'nan'

            def compute(self, i, o):
                k = self._hit('compute')
                x = np.array(i['x'])
                last_x['x'] = x.copy()
                r = L @ (x - t)
                o['f'] = 0.5 * r @ r * (np.nan if k == 'nan' else 1.0)
                for j, c in enumerate(q['cons']):
                    o[f'g{j}'] = np.array(c['C']) @ x + np.array(c['d'])

            def compute_partials(self, i, J):
                k = self._hit('compute_partials')
                J['f', 'x'] = (L.T @ L @ (np.array(i['x']) - t))[None, :] * (np.nan if k == 'nan' else 1.0)

        p = om.Problem(name='q')
        m = p.model
        m.add_subsystem('c', QP(), promotes=['*'])
        dvkw = dict(q['dv'])
        ufac = 1.0
        if q['units']:
            dvkw['units'] = 'cm'
            ufac = 100.0
        m.add_design_var('x', lower=q['xlo'] * ufac, upper=q['xup'] * ufac, **dvkw)
        m.add_objective('f', **q['obj'])
        for k, c in enumerate(q['cons']):
            kw = {kk: c[kk] for kk in ('scaler', 'adder', 'ref', 'ref0', 'indices') if kk in c}
            if c['kind'] == 'eq':
                kw['equals'] = np.array(c['equals']) if isinstance(c['equals'], list) else c['equals']
            else:
                for side in ('lower', 'upper'):
                    if c.get(side) is not None:
                        kw[side] = np.array(c[side]) if isinstance(c[side], list) else c[side]
            if c.get('linear'):
                kw['linear'] = True
            m.add_constraint(f'g{k}', **kw)
        p.driver = om.ScipyOptimizeDriver(optimizer=q['opt'], disp=False, tol=1e-10,
                                          maxiter=400 if q['opt'] != 'COBYLA' else 3000)
        p.setup()
        p.set_val('x', np.array(q['x0']))
        raised = None
        try:
            with contextlib.redirect_stdout(io.StringIO()), contextlib.redirect_stderr(io.StringIO()):
                p.run_driver()
        except om.AnalysisError as e:
            raised = 'AnalysisError'
        except Exception as e:      # noqa
            import traceback
            tb = traceback.extract_tb(e.__traceback__)
            if not any('/repo/' in f.filename or 'scipy' in f.filename for f in tb):
                raise
            raised = type(e).__name__
            res_exc = f"{type(e).__name__}: {str(e)[:300]}"
        res = {'raised': raised, 'fired': list(fired), 'success': None, 'x': None, 'g': None, 'last_x': last_x.get('x'),
               'counts': dict(counts), 'exc': locals().get('res_exc')}
        if raised is None:
            res['success'] = bool(p.driver.result.success)
            res['x'] = np.array(p.get_val('x')).copy()
            res['g'] = [np.array(p.get_val(f'g{k}')).copy() for k in range(len(q['cons']))]
            res['result_x'] = getattr(p.driver, 'result', None)
        st.inc('model_evaluations', counts['compute'])
        return res

    def run(self, plan, keep=False):
        reset_process_state(plan.get('run_seed', 0))
        log = Log(keep)
        st, faults, probes = Counter(), Counter(), Counter()
        viol = []
        q = plan['qp']
        ref = qp_reference(q)
        # precondition kept under shrinking: the start point satisfies the rows declared linear (scipy's
        # keep_feasible requirement for LinearConstraint)
        x0 = np.array(q['x0'])
        for k, rr, a, d, lo, up, e in con_rows(q):
            if q['cons'][k].get('linear') and e is None and not (lo + 1e-9 <= a @ x0 + d <= up - 1e-9):
                return {'viol': [], 'digest': log.digest(), 'stats': st, 'faults': faults, 'probes': Counter(
                    {'start_point_violates_linear_row_void': 1}), 'shape': 'void', 'nontrivial': False, 'sim_time': 0.0}
        variants = [('base', q)]
        if plan.get('twin_scaling'):
            q2 = copy.deepcopy(q)
            q2['dv'], q2['obj'] = {}, {}
            for c in q2['cons']:
                for k in ('scaler', 'adder', 'ref', 'ref0'):
                    c.pop(k, None)
            variants.append(('unscaled-twin', q2))
        xs = {}
        for tag, qq in variants:
            r = self._solve(qq, plan.get('fault'), log, st, faults)
            log.ev('result', tag, r['raised'], r['success'], r['x'] if r['x'] is not None else 'none', r['counts'])
            if r['raised'] is not None:
                st.inc('runs_raised')
                if not r['fired']:
                    import re
                    viol.append({'inv': 'I-21-exception', 'msg': f"{tag} ({qq['opt']}): run_driver raised without a fault: "
                                 f"{r['exc'] or r['raised']}",
                                 'ctx': re.sub(r'[-+]?\d[\d.e+-]*', '#', (r['exc'] or r['raised']))[:70]})
                continue
            if r['fired'] and r['success']:
                probes.inc('success_reported_although_a_fault_fired')
            if not r['success']:
                st.inc('not_success')
                continue
            st.inc('success')
            x = r['x']
            # (a) the model is left at the design the optimizer returned
            if r['last_x'] is not None and np.abs(r['last_x'] - x).max() > 1e-9 * (1 + np.abs(x).max()):
                viol.append({'inv': 'I-21-model-state', 'msg': f"{tag}: design variables hold {x.tolist()} but the last "
                             f"model evaluation was at {r['last_x'].tolist()}"})
                break
            for k, c in enumerate(qq['cons']):
                want = np.array(c['C']) @ x + np.array(c['d'])
                if np.abs(want - r['g'][k]).max() > 1e-8 * (1 + np.abs(want).max()):
                    viol.append({'inv': 'I-21-model-state', 'msg': f"{tag}: constraint outputs are not those of the "
                                 f"returned design"})
                    break
            if viol:
                break
            # (b) every element of every constraint satisfies its own bound
            worst = None
            for k, rr, a, d, lo, up, e in con_rows(qq):
                g = float(a @ x + d)
                if e is not None:
                    v, b = abs(g - e), e
                else:
                    v, b = max(lo - g, g - up, 0.0), (lo if lo - g > g - up else up)
                if v > 1e-5 * (1 + abs(b)):
                    worst = (k, rr, g, lo, up, e, v)
                    break
            if np.any(x < qq['xlo'] - 1e-6) or np.any(x > qq['xup'] + 1e-6):
                worst = ('x', None, x.tolist(), qq['xlo'], qq['xup'], None, 0)
            if worst is not None:
                k, rr, g, lo, up, e, v = worst
                viol.append({'inv': 'I-21-feasible', 'msg': f"{tag} ({qq['opt']}): success reported but constraint g{k}[{rr}] "
                             f"= {g!r} violates lower={lo!r} upper={up!r} equals={e!r} by {v:.3g} at x={x.tolist()} "
                             f"(bounds of the array: lower={qq['cons'][k].get('lower') if k != 'x' else None}, "
                             f"upper={qq['cons'][k].get('upper') if k != 'x' else None})"})
                break
            # (c) the reported design is the optimum -- only when the optimizer saw the convex problem, i.e. no
            # injected NaN / failed evaluation distorted it (feasibility and model state are judged regardless)
            if r['fired']:
                probes.inc('success_after_fault_optimality_not_judged')
                continue
            if qq['opt'] == 'COBYLA':
                # scipy 1.18's COBYLA called with bounds= stops at non-optimal feasible points on these QPs
                # also without OpenMDAO in the loop (checked with plain scipy): optimality is not judged
                if ref is not None and np.abs(x - ref[1]).max() > 2e-3 * (1 + np.abs(ref[1]).max()):
                    probes.inc('cobyla_success_at_suboptimal_point')
                continue
            if ref is None:
                viol.append({'inv': 'I-21-infeasible-success', 'msg': f"{tag}: success on a problem the reference finds infeasible"})
                break
            if np.abs(x - ref[1]).max() > 2e-3 * (1 + np.abs(ref[1]).max()):
                viol.append({'inv': 'I-21-optimum', 'msg': f"{tag} ({qq['opt']}): success at x={x.tolist()} but the optimum is "
                             f"{ref[1].tolist()} (f {0.5 * np.sum((np.array(qq['L']) @ (x - np.array(qq['t']))) ** 2):.6g} vs {ref[0]:.6g})"})
                break
            xs[tag] = x
            # active rows at the optimum
            for k, rr, a, d, lo, up, e in con_rows(qq):
                g = float(a @ ref[1] + d)
                if e is not None or abs(g - lo) < 1e-7 or abs(g - up) < 1e-7:
                    probes.inc('active_constraint_at_optimum')
                    break
        nontriv = st.get('success', 0) > 0 and probes.get('active_constraint_at_optimum', 0) > 0
        res = {'viol': viol, 'digest': log.digest(), 'stats': st, 'faults': faults, 'probes': probes,
               'shape': f"{q['opt']}-n{len(q['t'])}-c{len(q['cons'])}-{'F' if plan.get('fault') else 'N'}-"
                        f"{'S' if st.get('success') else 'X'}",
               'nontrivial': nontriv, 'sim_time': 0.0}
        if keep:
            res['events'] = log.events
        return res

    def candidates(self, plan):
        q = plan['qp']
        if plan.get('fault'):
            c = copy.deepcopy(plan)
            c['fault'] = None
            yield c
        if plan.get('twin_scaling'):
            c = copy.deepcopy(plan)
            c['twin_scaling'] = False
            yield c
        if len(q['cons']) > 1:
            for i in range(len(q['cons'])):
                c = copy.deepcopy(plan)
                del c['qp']['cons'][i]
                yield c
        for key in ('dv', 'obj'):
            if q[key]:
                c = copy.deepcopy(plan)
                c['qp'][key] = {}
                yield c
        if q['units']:
            c = copy.deepcopy(plan)
            c['qp']['units'] = False
            yield c
        for i, con in enumerate(q['cons']):
            for k in ('scaler', 'adder', 'ref', 'ref0', 'indices', 'linear'):
                if k in con and con[k]:
                    c = copy.deepcopy(plan)
                    c['qp']['cons'][i].pop(k)
                    yield c
            m = len(con['C'])
            if m > 1 and 'indices' not in con:
                for r in range(m):
                    c = copy.deepcopy(plan)
                    cc = c['qp']['cons'][i]
                    for k in ('C', 'd'):
                        del cc[k][r]
                    for k in ('lower', 'upper', 'equals'):
                        if isinstance(cc.get(k), list):
                            del cc[k][r]
                    yield c
        if q['opt'] != 'SLSQP':
            c = copy.deepcopy(plan)
            c['qp']['opt'] = 'SLSQP'
            yield c

    def signature(self, plan, viol):
        return viol['inv'] + (':' + viol['ctx'] if viol.get('ctx') else '')


CHECKS = {'C21': C21()}
