"""Build a real om.Problem from a world plan.  Components are stubs owned by the simulator:
they compute the plan's affine (+ mild quadratic) maps, log every evaluation and consult the
fault plan on every framework callback."""
import numpy as np
import scipy.sparse as sp

import openmdao.api as om
from openmdao.core.analysis_error import AnalysisError

from .spec import children, decode_index


class Runtime:
    """Per-Problem simulator state shared by all stubs of one build."""

    def __init__(self, world, log=None):
        self.world = world
        self.log = log
        self.counts = {}          # (comp, method) -> number of calls
        self.faults = []          # [{'comp','method','n','kind','fired'}]
        self.fired = []
        self.trace = []           # (comp, method) in call order
        self.on_eval = None       # callback(comp_name, method, inputs dict)
        self.problem = None
        self.last_out = {}        # output name -> physical array of the stub's last real compute
        self.enabled = True
        self.krylov_fail = 0      # number of times a ScipyKrylov of this Problem reported non-convergence
        self.krylov_fail_sparsity = 0

    def hit(self, comp, method):
        n = self.counts.get((comp, method), 0) + 1
        self.counts[(comp, method)] = n
        self.trace.append((comp, method))
        if not self.enabled:
            return None
        for f in self.faults:
            if not f.get('fired') and f['comp'] == comp and f['method'] == method and f['n'] == n:
                f['fired'] = True
                self.fired.append(f)
                if self.log is not None:
                    self.log.ev('fault', f['kind'], comp, method, n)
                if f['kind'] == 'analysis_error':
                    raise AnalysisError(f"sim-fault {comp}.{method}#{n}")
                return f['kind']
        return None

    def arm(self, faults):
        """Install one-shot faults counted from *now* (n-th call after arming)."""
        for f in faults:
            f = dict(f)
            f['n'] = self.counts.get((f['comp'], f['method']), 0) + f['n']
            self.faults.append(f)

    def disarm(self):
        self.faults = [f for f in self.faults if f.get('fired')]


def _arr(v, shape):
    return np.array(v, dtype=float).reshape(shape)


def _out_kwargs(o):
    kw = {}
    for k in ('ref', 'ref0', 'res_ref', 'lower', 'upper'):
        if o.get(k) is not None:
            v = o[k]
            kw[k] = _arr(v, o['shape']) if isinstance(v, list) else v
    return kw


def _sparse_cp(A, fmt, pattern_of=None):
    """scipy sparse matrix with the values of A on the fixed pattern nonzeros(pattern_of) + column 0 (explicit
    zeros are stored)."""
    A = np.asarray(A)
    P = np.asarray(pattern_of if pattern_of is not None else A) != 0
    P = P.copy()
    P[:, 0] = True
    r, c = np.nonzero(P)
    coo = sp.coo_matrix((A[r, c], (r, c)), shape=A.shape)
    return {'csr_cp': coo.tocsr, 'csc_cp': coo.tocsc, 'coosp_cp': lambda: coo}[fmt]()


def _declare(comp, of, wrt, A, fmt, const):
    """Declare one sub-jacobian in the plan's format.  const=False leaves values to compute_partials."""
    A = np.array(A, dtype=float)
    m, n = A.shape
    if fmt in ('dense', 'dense_cp'):
        if const and fmt == 'dense':
            comp.declare_partials(of, wrt, val=A)
        else:
            comp.declare_partials(of, wrt)
        return ('dense', None, None)
    if fmt in ('coo', 'coo_cp'):
        r, c = np.nonzero(A)
        vals = A[r, c]
        if len(r) == 0:
            r, c, vals = np.array([0]), np.array([0]), np.array([0.0])
        if const and fmt != 'coo_cp':
            comp.declare_partials(of, wrt, rows=r, cols=c, val=vals)
        else:
            comp.declare_partials(of, wrt, rows=r, cols=c)
        return ('coo', r, c)
    if fmt in ('csr_cp', 'csc_cp', 'coosp_cp'):
        # a scipy sparse value with a fixed pattern (the nonzeros of A plus column 0, which a quadratic term
        # fills); compute_partials / linearize assign a new matrix of that pattern every time
        comp.declare_partials(of, wrt, val=_sparse_cp(A, fmt))
        return ('spcp', fmt, None)
    if fmt == 'diag':
        comp.declare_partials(of, wrt, rows=np.arange(m), cols=np.arange(m), val=np.diag(A).copy())
        return ('coo', np.arange(m), np.arange(m))
    if fmt == 'csr':
        comp.declare_partials(of, wrt, val=sp.csr_matrix(A))
        return ('sp', None, None)
    if fmt == 'csc':
        comp.declare_partials(of, wrt, val=sp.csc_matrix(A))
        return ('sp', None, None)
    if fmt == 'coo_sp':
        comp.declare_partials(of, wrt, val=sp.coo_matrix(A))
        return ('sp', None, None)
    raise ValueError(fmt)


def _declare_approx(comp, s, a):
    """Declare a stub's partials as approximated: one method for everything, or a method per input."""
    def kw_for(method):
        kw = {'method': method}
        if method == 'fd':
            kw.update(form=a['form'], step=a['step'], step_calc=a['step_calc'])
        return kw
    if a.get('methods'):
        for i in s['ins']:
            comp.declare_partials('*', i['name'], **kw_for(a['methods'].get(i['name'], a['method'])))
        if s['kind'] == 'imp':
            comp.declare_partials('*', s['outs'][0]['name'], **kw_for(a['method']))
    else:
        comp.declare_partials('*', '*', **kw_for(a['method']))
    if a.get('colored') and not a.get('methods'):
        comp.declare_coloring(wrt='*', method=a['method'], num_full_jacs=2, tol=1e-20,
                              show_summary=False, show_sparsity=False)


class AffStub(om.ExplicitComponent):
    def initialize(self):
        self.options.declare('spec', recordable=False)
        self.options.declare('rt', recordable=False)

    def setup(self):
        s = self.options['spec']
        for i in s['ins']:
            kw = {}
            if i.get('val') is not None:
                kw['val'] = _arr(i['val'], i['shape'])
            self.add_input(i['name'], shape=tuple(i['shape']), units=i['units'], **kw)
        for o in s['outs']:
            self.add_output(o['name'], shape=tuple(o['shape']), units=o['units'], **_out_kwargs(o))
        for d in s.get('discrete_in', []):
            self.add_discrete_input(d['name'], val=d['val'])
        for d in s.get('discrete_out', []):
            self.add_discrete_output(d['name'], val=d['val'])
        self._decl = {}
        if s.get('mf'):
            return
        if s.get('approx'):
            a = s['approx']
            _declare_approx(self, s, a)
            return
        q = s.get('quad')
        for o in s['outs']:
            for i in s['ins']:
                key = o['name'] + '|' + i['name']
                if key in s.get('undeclared', []):
                    continue        # no dependence, not declared
                const = not (q and q['out'] == o['name'] and q['in'] == i['name'])
                self._decl[key] = _declare(self, o['name'], i['name'], s['A'][o['name']][i['name']],
                                           s['fmt'][key], const)

    def _J(self, of, wrt, inputs):
        s = self.options['spec']
        A = np.array(s['A'][of][wrt], dtype=inputs[wrt].dtype)
        q = s.get('quad')
        if q and q['out'] == of and q['in'] == wrt:
            A = A.copy()
            A[:, 0] += 2.0 * np.array(q['coef']) * inputs[wrt].ravel()[0]
        return A

    def compute(self, inputs, outputs, discrete_inputs=None, discrete_outputs=None):
        s = self.options['spec']
        rt = self.options['rt']
        k = rt.hit(s['name'], 'compute')
        if rt.on_eval is not None:
            rt.on_eval(s['name'], 'compute', inputs)
        q = s.get('quad')
        for o in s['outs']:
            y = np.array(s['b'][o['name']], dtype=outputs[o['name']].dtype)
            for i in s['ins']:
                y = y + np.array(s['A'][o['name']][i['name']]) @ inputs[i['name']].ravel()
            if q and q['out'] == o['name']:
                y = y + np.array(q['coef']) * inputs[q['in']].ravel()[0] ** 2
            if k == 'nan':
                y = y * np.nan
            outputs[o['name']] = y.reshape(o['shape'])
            if not np.iscomplexobj(y):
                rt.last_out[o['name']] = np.array(y, dtype=float)
        if discrete_inputs is not None and discrete_outputs is not None:
            for di, do in zip(s.get('discrete_in', []), s.get('discrete_out', [])):
                discrete_outputs[do['name']] = discrete_inputs[di['name']]

    def compute_partials(self, inputs, J, discrete_inputs=None):
        s = self.options['spec']
        rt = self.options['rt']
        k = rt.hit(s['name'], 'compute_partials')
        if s.get('mf') or s.get('approx'):
            return
        q = s.get('quad')
        for key, (kind, r, c) in self._decl.items():
            of, wrt = key.split('|')
            fmt = s['fmt'][key]
            nonconst = q and q['out'] == of and q['in'] == wrt
            if fmt in ('dense_cp', 'coo_cp', 'csr_cp', 'csc_cp', 'coosp_cp') or nonconst:
                A = self._J(of, wrt, inputs)
                if kind == 'dense':
                    J[of, wrt] = A * (np.nan if k == 'nan' else 1.0)
                elif kind == 'coo':
                    J[of, wrt] = A[r, c] * (np.nan if k == 'nan' else 1.0)
                elif kind == 'spcp':
                    J[of, wrt] = _sparse_cp(A * (np.nan if k == 'nan' else 1.0), r, pattern_of=s['A'][of][wrt])
                else:
                    J[of, wrt] = sp.csr_matrix(A)


class AffStubMF(AffStub):
    """Matrix-free variant (OpenMDAO decides matrix-freeness by the method being overridden)."""

    def compute_jacvec_product(self, inputs, d_inputs, d_outputs, mode, discrete_inputs=None):
        s = self.options['spec']
        rt = self.options['rt']
        rt.hit(s['name'], 'jacvec')
        for o in s['outs']:
            if o['name'] not in d_outputs:
                continue
            for i in s['ins']:
                if i['name'] not in d_inputs:
                    continue
                A = self._J(o['name'], i['name'], inputs)
                if mode == 'fwd':
                    d_outputs[o['name']] += (A @ d_inputs[i['name']].ravel()).reshape(o['shape'])
                else:
                    d_inputs[i['name']] += (A.T @ d_outputs[o['name']].ravel()).reshape(i['shape'])


class ImpStub(om.ImplicitComponent):
    """R = D u - sum(A x) - b, with its own exact solve_nonlinear / solve_linear."""

    def initialize(self):
        self.options.declare('spec', recordable=False)
        self.options.declare('rt', recordable=False)

    def setup(self):
        s = self.options['spec']
        for i in s['ins']:
            kw = {}
            if i.get('val') is not None:
                kw['val'] = _arr(i['val'], i['shape'])
            self.add_input(i['name'], shape=tuple(i['shape']), units=i['units'], **kw)
        o = s['outs'][0]
        self.add_output(o['name'], shape=tuple(o['shape']), units=o['units'], **_out_kwargs(o))
        self._decl = {}
        if s.get('approx'):
            a = s['approx']
            _declare_approx(self, s, a)
            return
        key = o['name'] + '|' + o['name']
        self._decl[key] = _declare(self, o['name'], o['name'], s['D'], s['fmt'][key], True)
        for i in s['ins']:
            key = o['name'] + '|' + i['name']
            A = -np.array(s['A'][o['name']][i['name']])
            self._decl[key] = _declare(self, o['name'], i['name'], A, s['fmt'][key], True)

    def _rhs(self, inputs, dtype):
        s = self.options['spec']
        o = s['outs'][0]
        y = np.array(s['b'][o['name']], dtype=dtype)
        for i in s['ins']:
            y = y + np.array(s['A'][o['name']][i['name']]) @ inputs[i['name']].ravel()
        return y

    def apply_nonlinear(self, inputs, outputs, residuals):
        s = self.options['spec']
        rt = self.options['rt']
        k = rt.hit(s['name'], 'apply_nonlinear')
        if rt.on_eval is not None:
            rt.on_eval(s['name'], 'apply_nonlinear', inputs)
        o = s['outs'][0]
        u = outputs[o['name']].ravel()
        r = np.array(s['D']) @ u - self._rhs(inputs, u.dtype)
        if k == 'nan':
            r = r * np.nan
        residuals[o['name']] = r.reshape(o['shape'])

    def solve_nonlinear(self, inputs, outputs):
        s = self.options['spec']
        rt = self.options['rt']
        k = rt.hit(s['name'], 'solve_nonlinear')
        if rt.on_eval is not None:
            rt.on_eval(s['name'], 'solve_nonlinear', inputs)
        o = s['outs'][0]
        u = np.linalg.solve(np.array(s['D'], dtype=outputs[o['name']].dtype),
                            self._rhs(inputs, outputs[o['name']].dtype))
        if k == 'nan':
            u = u * np.nan
        outputs[o['name']] = u.reshape(o['shape'])

    def linearize(self, inputs, outputs, J):
        s = self.options['spec']
        rt = self.options['rt']
        rt.hit(s['name'], 'linearize')
        for key, (kind, r, c) in self._decl.items():
            if s['fmt'][key] in ('dense_cp', 'coo_cp', 'csr_cp', 'csc_cp', 'coosp_cp'):
                of, wrt = key.split('|')
                A = np.array(s['D']) if wrt == of else -np.array(s['A'][of][wrt])
                J[of, wrt] = A if kind == 'dense' else (_sparse_cp(A, r) if kind == 'spcp' else A[r, c])

    def solve_linear(self, d_outputs, d_residuals, mode):
        s = self.options['spec']
        o = s['outs'][0]
        D = np.array(s['D'])
        if mode == 'fwd':
            d_outputs[o['name']] = np.linalg.solve(D, d_residuals[o['name']].ravel()).reshape(o['shape'])
        else:
            d_residuals[o['name']] = np.linalg.solve(D.T, d_outputs[o['name']].ravel()).reshape(o['shape'])


class Imp2Stub(om.ImplicitComponent):
    """Two states: R1 = D1 u1 - sum(A x) - b1 ; R2 = D2 u2 - C u1 - sum(A x) - b2.  Only the blocks that exist are
    declared; exact block-triangular solve_nonlinear / solve_linear."""

    def initialize(self):
        self.options.declare('spec', recordable=False)
        self.options.declare('rt', recordable=False)

    def setup(self):
        s = self.options['spec']
        for i in s['ins']:
            kw = {}
            if i.get('val') is not None:
                kw['val'] = _arr(i['val'], i['shape'])
            self.add_input(i['name'], shape=tuple(i['shape']), units=i['units'], **kw)
        for o in s['outs']:
            self.add_output(o['name'], shape=tuple(o['shape']), units=o['units'], **_out_kwargs(o))
        self._decl = {}
        o1, o2 = s['outs']
        for o in s['outs']:
            key = o['name'] + '|' + o['name']
            self._decl[key] = _declare(self, o['name'], o['name'], s['D'][o['name']], s['fmt'][key], True)
            for i in s['ins']:
                key = o['name'] + '|' + i['name']
                if key in s.get('undeclared', ()):
                    continue
                self._decl[key] = _declare(self, o['name'], i['name'], -np.array(s['A'][o['name']][i['name']]),
                                           s['fmt'][key], True)
        key = o2['name'] + '|' + o1['name']
        self._decl[key] = _declare(self, o2['name'], o1['name'], -np.array(s['C']), s['fmt'][key], True)

    def _block(self, of, wrt):
        s = self.options['spec']
        if of == wrt:
            return np.array(s['D'][of])
        if wrt == s['outs'][0]['name']:
            return -np.array(s['C'])
        return -np.array(s['A'][of][wrt])

    def _rhs(self, j, inputs, outputs, dtype):
        s = self.options['spec']
        o = s['outs'][j]
        y = np.array(s['b'][o['name']], dtype=dtype)
        for i in s['ins']:
            if o['name'] + '|' + i['name'] not in s.get('undeclared', ()):
                y = y + np.array(s['A'][o['name']][i['name']]) @ inputs[i['name']].ravel()
        if j == 1:
            y = y + np.array(s['C']) @ outputs[s['outs'][0]['name']].ravel()
        return y

    def apply_nonlinear(self, inputs, outputs, residuals):
        s = self.options['spec']
        rt = self.options['rt']
        k = rt.hit(s['name'], 'apply_nonlinear')
        if rt.on_eval is not None:
            rt.on_eval(s['name'], 'apply_nonlinear', inputs)
        for j, o in enumerate(s['outs']):
            u = outputs[o['name']].ravel()
            r = np.array(s['D'][o['name']]) @ u - self._rhs(j, inputs, outputs, u.dtype)
            if k == 'nan':
                r = r * np.nan
            residuals[o['name']] = r.reshape(o['shape'])

    def solve_nonlinear(self, inputs, outputs):
        s = self.options['spec']
        rt = self.options['rt']
        k = rt.hit(s['name'], 'solve_nonlinear')
        if rt.on_eval is not None:
            rt.on_eval(s['name'], 'solve_nonlinear', inputs)
        for j, o in enumerate(s['outs']):
            dt = outputs[o['name']].dtype
            u = np.linalg.solve(np.array(s['D'][o['name']], dtype=dt), self._rhs(j, inputs, outputs, dt))
            if k == 'nan':
                u = u * np.nan
            outputs[o['name']] = u.reshape(o['shape'])

    def linearize(self, inputs, outputs, J):
        s = self.options['spec']
        rt = self.options['rt']
        rt.hit(s['name'], 'linearize')
        for key, (kind, r, c) in self._decl.items():
            if s['fmt'][key] in ('dense_cp', 'coo_cp'):
                of, wrt = key.split('|')
                A = self._block(of, wrt)
                J[of, wrt] = A if kind == 'dense' else A[r, c]

    def solve_linear(self, d_outputs, d_residuals, mode):
        s = self.options['spec']
        o1, o2 = s['outs']
        D1, D2, C = np.array(s['D'][o1['name']]), np.array(s['D'][o2['name']]), np.array(s['C'])
        if mode == 'fwd':
            du1 = np.linalg.solve(D1, d_residuals[o1['name']].ravel())
            du2 = np.linalg.solve(D2, d_residuals[o2['name']].ravel() + C @ du1)
            d_outputs[o1['name']] = du1.reshape(o1['shape'])
            d_outputs[o2['name']] = du2.reshape(o2['shape'])
        else:
            dr2 = np.linalg.solve(D2.T, d_outputs[o2['name']].ravel())
            dr1 = np.linalg.solve(D1.T, d_outputs[o1['name']].ravel() + C.T @ dr2)
            d_residuals[o1['name']] = dr1.reshape(o1['shape'])
            d_residuals[o2['name']] = dr2.reshape(o2['shape'])


# ----------------------------------------------------------------------------- naming
def comp_by_name(world):
    return {c['name']: c for c in world['comps']}


def owner_of(world):
    """var name -> (comp, 'in'|'out', var dict)"""
    m = {}
    for c in world['comps']:
        for o in c['outs']:
            m[o['name']] = (c, 'out', o)
        for i in c['ins']:
            m[i['name']] = (c, 'in', i)
    return m


def abs_name(world, var):
    c, _, _ = owner_of(world)[var]
    return (c['group'] + '.' if c['group'] else '') + c['name'] + '.' + var


def rel_name(world, var, at=''):
    """Promoted name of `var` as seen from group `at` (my own derivation from the plan)."""
    c, io, v = owner_of(world)[var]
    local = var
    if io == 'in' and v.get('via') == 'promote':
        name = v['src']           # renamed to the source's variable name
    elif c['prom'] or var in c.get('promote_vars', []):
        name = local
    else:
        name = c['name'] + '.' + local
    g = c['group']
    while g != at:
        if not g:
            raise ValueError(f"{var} is not inside group {at}")
        if not world['groups'][g]['prom']:
            name = g.split('.')[-1] + '.' + name
        g = world['groups'][g]['parent']
    return name


def lca(world, a, b):
    ga = owner_of(world)[a][0]['group']
    gb = owner_of(world)[b][0]['group']
    pa = ga.split('.') if ga else []
    pb = gb.split('.') if gb else []
    out = []
    for x, y in zip(pa, pb):
        if x != y:
            break
        out.append(x)
    return '.'.join(out)


def to_index(idx):
    """Plan index spec -> what a user would pass as src_indices."""
    if idx is None:
        return None
    k = idx['k']
    if k == 'list':
        return list(idx['v'])
    if k == 'int':
        return idx['v']
    return om.slicer[decode_index(idx)]


def normalise_promotions(world):
    """A 'promote' connection needs source and target to be siblings; otherwise use connect.  The
    source output must be promoted out of its component."""
    own = owner_of(world)
    for c in world['comps']:
        c.setdefault('promote_vars', [])
    for c in world['comps']:
        for i in c['ins']:
            if i.get('via') == 'promote':
                sc = own[i['src']][0]
                if sc['group'] != c['group'] or sc is c:
                    i['via'] = 'connect'
                elif not sc['prom'] and i['src'] not in sc['promote_vars']:
                    sc['promote_vars'].append(i['src'])
    return world


def _cls(base, world, c):
    """The stub class, with System.load_case overridden for the component the plan names (the documented
    hook for systems that need special handling when a case is loaded: this one writes its own recorded
    variables itself)."""
    if world.get('load_case_override') != c['name']:
        return base

    class WithLoadCase(base):
        def load_case(self, case):
            self.options['rt'].hit(self.options['spec']['name'], 'load_case')
            model = self._problem_meta['model_ref']()
            pre = self.pathname + '.'
            # exactly the share Problem.load_case leaves to this system: recorded inputs by absolute name, and
            # recorded outputs by the (promoted) name they are keyed with -- which for an input of this component
            # that is fed by an automatic IndepVarComp is the name of that input
            # (recorded values of this component's connected inputs are not written: set_val on a connected input
            # writes its source, and this hook runs after Problem.load_case has restored the sources)
            if case.outputs is not None:
                resolver = model._resolver
                for n in case.outputs:
                    # (a recorded output is keyed by promoted name; for the source of an automatically connected
                    # input that is the input's promoted name, and Problem.load_case leaves it to the system
                    # that owns the input)
                    try:
                        absn = list(resolver.absnames(n))
                    except Exception:      # noqa
                        absn = []
                    if any(a.startswith(pre) for a in absn):
                        # the recorded value is the source's, in the source's units (a group-level default may
                        # give an automatic source other units than the input it feeds)
                        src = model.get_source(absn[0])
                        meta = model._var_allprocs_abs2meta['output'].get(src)
                        model.set_val(n, case.outputs[n], units=None if meta is None else meta['units'])
    WithLoadCase.__name__ = base.__name__
    return WithLoadCase


# ----------------------------------------------------------------------------- builder
NL = {
    'runonce': lambda s: om.NonlinearRunOnce(),
    'nlbgs': lambda s: om.NonlinearBlockGS(use_aitken=s.get('aitken', False),
                                           use_apply_nonlinear=s.get('use_apply', False)),
    'nlbj': lambda s: om.NonlinearBlockJac(),
    'newton': lambda s: om.NewtonSolver(solve_subsystems=s.get('solve_subsystems', False)),
    'broyden': lambda s: om.BroydenSolver(),
}
class _Krylov(om.ScipyKrylov):
    """ScipyKrylov that also tells the simulator when it reports non-convergence (with iprint=-1 and
    err_on_non_converge=False nothing else does)."""
    _verif_rt = None

    def _convergence_failure(self):
        if self._verif_rt is not None:
            if self._system()._problem_meta.get('coloring_randgen') is not None:
                self._verif_rt.krylov_fail_sparsity += 1      # randomised partials of a sparsity computation
            else:
                self._verif_rt.krylov_fail += 1
        super()._convergence_failure()


LN = {
    'direct': lambda s: om.DirectSolver(assemble_jac=False),
    'direct_csc': lambda s: om.DirectSolver(assemble_jac=True),
    'direct_dense': lambda s: om.DirectSolver(assemble_jac=True),
    'direct_csr': lambda s: om.DirectSolver(assemble_jac=True),
    'lnbgs': lambda s: om.LinearBlockGS(),
    'lnbj': lambda s: om.LinearBlockJac(),
    'krylov': lambda s: _Krylov(),
    'krylov_csc': lambda s: _Krylov(assemble_jac=True),
    'krylov_csr': lambda s: _Krylov(assemble_jac=True),
    'krylov_dense': lambda s: _Krylov(assemble_jac=True),
    'lnbgs_csc': lambda s: om.LinearBlockGS(assemble_jac=True),
    'lnbgs_csr': lambda s: om.LinearBlockGS(assemble_jac=True),
    'runonce': lambda s: om.LinearRunOnce(),
}


def build(world, rt, name='w', tol=None, reorder=False, problem_kwargs=None):
    """Returns an un-setup Problem."""
    normalise_promotions(world)
    p = om.Problem(name=name, allow_post_setup_reorder=reorder, **(problem_kwargs or {}))
    rt.problem = p
    groups = {'': p.model}
    byname = comp_by_name(world)
    tol = tol or {}

    def make(gname):
        grp = groups[gname]
        for child in world['order'][gname]:
            if child in world['groups']:
                gspec = world['groups'][child]
                sub = om.Group()
                grp.add_subsystem(child.split('.')[-1], sub, promotes=['*'] if gspec['prom'] else None)
                groups[child] = sub
                make(child)
            else:
                c = byname[child]
                if c['kind'] == 'ivc':
                    comp = om.IndepVarComp()
                    for o in c['outs']:
                        comp.add_output(o['name'], val=_arr(o['val'], o['shape']), units=o['units'])
                    for d in c.get('discrete_out', []):
                        comp.add_discrete_output(d['name'], val=d['val'])
                elif c['kind'] == 'imp':
                    comp = _cls(ImpStub, world, c)(spec=c, rt=rt)
                elif c['kind'] == 'imp2':
                    comp = _cls(Imp2Stub, world, c)(spec=c, rt=rt)
                elif c.get('mf'):
                    comp = _cls(AffStubMF, world, c)(spec=c, rt=rt)
                else:
                    comp = _cls(AffStub, world, c)(spec=c, rt=rt)
                pin, pout = [], []
                for i in c['ins']:
                    if i.get('via') == 'promote':
                        pin.append((i['name'], i['src']))
                    elif c['prom']:
                        pin.append(i['name'])
                for o in c['outs']:
                    if c['prom'] or o['name'] in c.get('promote_vars', []):
                        pout.append(o['name'])
                for d in c.get('discrete_in', []):
                    pin.append(d['name']) if c['prom'] else None
                for d in c.get('discrete_out', []):
                    pout.append(d['name']) if c['prom'] else None
                grp.add_subsystem(c['name'], comp, promotes_inputs=pin or None, promotes_outputs=pout or None)

    make('')
    # solvers
    for gname, s in world['solvers'].items():
        grp = groups[gname]
        grp.nonlinear_solver = nl = NL[s['nl']](s)
        if s['nl'] != 'runonce':
            nl.options['maxiter'] = tol.get('maxiter', 200)
            nl.options['atol'] = tol.get('atol', 1e-12)
            nl.options['rtol'] = tol.get('rtol', 1e-12)
            nl.options['err_on_non_converge'] = True
            nl.options['iprint'] = -1
            if s['nl'] in ('newton', 'broyden'):
                nl.linesearch = None
        grp.linear_solver = ln = LN[s['ln']](s)
        if isinstance(ln, _Krylov):
            ln._verif_rt = rt
        if '_' in s['ln']:
            grp.options['assembled_jac_type'] = s['ln'].split('_')[1]
        if s['ln'].split('_')[0] in ('lnbgs', 'lnbj', 'krylov'):
            # A block solver that does not meet its tolerance (its norm counts subsystems relevance skips, see
            # below) spends maxiter sweeps on every call; nested inside another block solver that multiplies
            # (200 x 200 inner solves per right-hand side took a single run beyond two minutes).  The worlds
            # contract by >= 2 per sweep, so inner levels get fewer sweeps; an inexact inner solve only costs
            # the outer level sweeps.
            anc, nblock = world['groups'][gname]['parent'] if gname else None, 0
            while anc is not None:
                if world['solvers'].get(anc, {'ln': ''})['ln'].split('_')[0] in ('lnbgs', 'lnbj'):
                    nblock += 1
                anc = world['groups'][anc]['parent'] if anc else None
            ln.options['maxiter'] = (200, 60, 40)[min(nblock, 2)]
            # GMRES stops on the residual of the solver-scaled system; with ref/res_ref scaling of 1e2 and
            # derivative entries of 1e-4 an rtol of 1e-8 is visible at the 1e-4 relative level in physical
            # totals, so Krylov is converged as tightly as the block solvers
            ln.options['atol'] = tol.get('ln_atol', 1e-12 if not s['ln'].startswith('krylov') else 1e-13)
            ln.options['rtol'] = tol.get('ln_rtol', 1e-11 if not s['ln'].startswith('krylov') else 1e-12)
            # Linear block solvers measure their residual over the whole vector, including systems that
            # relevance pruning skips, so with irrelevant subsystems they report non-convergence although
            # the requested derivatives are exact (see DESIGN).  Convergence of linear solves is therefore
            # judged by the result (totals vs reference), not by the solver's own report.
            ln.options['err_on_non_converge'] = False
            ln.options['iprint'] = -1
        if s.get('rhs_checking') and 'rhs_checking' in ln.options:
            ln.options['rhs_checking'] = True
        if world.get('auto_order'):
            pass
    if world.get('auto_order'):
        for gname, grp in groups.items():
            grp.options['auto_order'] = True
    # explicit connections
    for c in world['comps']:
        for i in c['ins']:
            if i.get('via') == 'connect':
                at = lca(world, i['src'], i['name']) if i.get('at', 'root') == 'lca' else ''
                kw = {}
                if i['idx'] is not None:
                    kw['src_indices'] = to_index(i['idx'])
                    kw['flat_src_indices'] = bool(i['flat'])
                groups[at].connect(rel_name(world, i['src'], at), rel_name(world, i['name'], at), **kw)
    for c in world['comps']:
        for i in c['ins']:
            if i.get('default_units') and i['default_units'] != i['units']:
                p.model.set_input_defaults(rel_name(world, i['name']), units=i['default_units'])
    # discrete connections (root level, by promoted name)
    def disc_name(c, var):
        name = var if c['prom'] else c['name'] + '.' + var
        g = c['group']
        while g:
            if not world['groups'][g]['prom']:
                name = g.split('.')[-1] + '.' + name
            g = world['groups'][g]['parent']
        return name
    downer = {d['name']: c for c in world['comps'] for d in c.get('discrete_out', [])}
    for c in world['comps']:
        for d in c.get('discrete_in', []):
            if d.get('src'):
                p.model.connect(disc_name(downer[d['src']], d['src']), disc_name(c, d['name']))
    # design variables and responses (declared on the model by root-level promoted name)
    for dv in world.get('dvs', []):
        kw = {k: dv[k] for k in ('indices', 'scaler', 'adder', 'ref', 'ref0', 'lower', 'upper', 'units') if k in dv}
        if 'indices' in kw:
            kw['flat_indices'] = True
        p.model.add_design_var(rel_name(world, dv['name']), **kw)
    for r in world.get('resps', []):
        kw = {k: r[k] for k in ('indices', 'index', 'scaler', 'adder', 'ref', 'ref0', 'units') if k in r}
        nm = rel_name(world, r['name'])
        if 'indices' in kw or 'index' in kw:
            kw['flat_indices'] = True
        if r['type'] == 'obj':
            p.model.add_objective(nm, **kw)
        else:
            for k in ('lower', 'upper', 'equals', 'linear'):
                if k in r:
                    kw[k] = r[k]
            if not any(k in kw for k in ('lower', 'upper', 'equals')):
                kw['upper'] = 1e30
            p.model.add_constraint(nm, **kw)
    return p, groups
