"""World plans: a JSON description of a generated OpenMDAO model (stub components, hierarchy,
connections with index forms and units, scalings, partial formats, solver stacks, design
variables / responses).  Everything downstream (builder, reference model, executor) is a pure
function of the plan.

Conventions
* every variable name is globally unique (`c3_x1`, `c3_y0`), so promotion never collides and a
  "connection by promotion" is an explicit rename in the promotes tuple;
* `comps` is in *logical* (dependency) order; groups own contiguous ranges of it, so the only
  cycles are the feedback edges the generator adds on purpose;
* numbers are dyadic rationals: they survive JSON exactly and shrink well.
"""
import numpy as np

from dst.core.util import dyadic, nz_dyadic

LEN = {'m': 1.0, 'cm': 0.01, 'mm': 0.001, 'km': 1000.0}
TEMP = {'degK': (1.0, 0.0), 'degC': (1.0, 273.15), 'degF': (5. / 9., 459.67)}
TIME = {'s': 1.0, 'ms': 0.001, 'min': 60.0}


def conv(src_u, tgt_u):
    """(factor, offset) with v_tgt = v_src * factor + offset.  Independent unit table."""
    if src_u is None or tgt_u is None or src_u == tgt_u:
        return 1.0, 0.0
    for tab in (LEN, TIME):
        if src_u in tab and tgt_u in tab:
            return tab[src_u] / tab[tgt_u], 0.0
    if src_u in TEMP and tgt_u in TEMP:
        fs, os_ = TEMP[src_u]
        ft, ot = TEMP[tgt_u]
        return fs / ft, os_ * fs / ft - ot
    raise ValueError(f"incompatible units {src_u} {tgt_u}")


def compatible(u, rng, allow_big=False):
    if u is None:
        return None
    for tab in (LEN, TIME, TEMP):
        if u in tab:
            cands = [v for v in tab if allow_big or tab is TEMP or 1e-3 <= (tab[u] / tab[v]) <= 1e3]
            return rng.choice(cands)
    return u


SHAPES = [[1], [2], [3], [2, 2], [4], [2, 3]]


def apply_index(shape, idx, flat):
    """Flat source positions selected by an index spec, and the resulting shape (NumPy semantics)."""
    size = int(np.prod(shape))
    if idx is None:
        return list(range(size)), list(shape)
    base = np.arange(size) if flat else np.arange(size).reshape(shape)
    sel = base[decode_index(idx)]
    sel = np.atleast_1d(sel)
    return [int(v) for v in sel.ravel()], list(sel.shape)


def decode_index(idx):
    """JSON index spec -> python index object."""
    k = idx['k']
    if k == 'list':
        return np.array(idx['v'], dtype=int)
    if k == 'slice':
        return slice(*idx['v'])
    if k == 'int':
        return idx['v']
    if k == 'tuple':
        return tuple(decode_index(e) for e in idx['v'])
    if k == 'ellipsis':
        return Ellipsis
    if k == 'none':
        return slice(None)
    raise ValueError(k)


def gen_index(rng, shape, forms):
    """A seeded index spec into a source of `shape`; returns (idx, flat)."""
    size = int(np.prod(shape))
    nd = len(shape)
    form = rng.choice(forms)
    if form == 'full':
        return None, False
    if form == 'list':
        n = rng.randint(1, min(size, 4))
        return {'k': 'list', 'v': [rng.randint(0, size - 1) for _ in range(n)]}, True
    if form == 'neglist':
        n = rng.randint(1, min(size, 4))
        return {'k': 'list', 'v': [rng.randint(-size, size - 1) for _ in range(n)]}, True
    if form == 'slice':
        a = rng.randint(0, size - 1)
        b = rng.randint(a + 1, size)
        st = rng.choice([1, 1, 2])
        return {'k': 'slice', 'v': [a, b, st]}, True
    if form == 'negslice':
        st = rng.choice([-1, -1, -2])
        return {'k': 'slice', 'v': [None, None, st]}, True
    if form == 'int':
        return {'k': 'int', 'v': rng.randint(-size, size - 1)}, True
    if form == 'int_pos':
        return {'k': 'int', 'v': rng.randint(0, size - 1)}, True
    if form == 'tuple' and nd == 2:
        def one(ext):
            r = rng.random()
            if r < 0.35:
                return {'k': 'none'}
            if r < 0.6:
                a = rng.randint(0, ext - 1)
                return {'k': 'slice', 'v': [a, rng.randint(a + 1, ext), 1]}
            if r < 0.8:
                return {'k': 'int', 'v': rng.randint(-ext, ext - 1)}
            return {'k': 'list', 'v': [rng.randint(-ext, ext - 1) for _ in range(rng.randint(1, 2))]}
        e0, e1 = one(shape[0]), one(shape[1])
        if e0['k'] == 'list' and e1['k'] == 'list':
            e1 = {'k': 'none'}
        return {'k': 'tuple', 'v': [e0, e1]}, False
    if form == 'ellipsis' and nd == 2:
        return {'k': 'tuple', 'v': [{'k': 'ellipsis'}, {'k': 'int', 'v': rng.randint(-shape[1], shape[1] - 1)}]}, False
    if form == 'nonflat_list':
        return {'k': 'list', 'v': [rng.randint(-shape[0], shape[0] - 1) for _ in range(rng.randint(1, 3))]}, False
    return None, False


def mat(rng, m, n, sparse=0.3, den=4, lo=-2, hi=2):
    return [[(0.0 if rng.random() < sparse else dyadic(rng, lo, hi, den)) for _ in range(n)] for _ in range(m)]


FORMS_BASIC = ['full', 'full', 'list', 'slice']
FORMS_ALL = ['full', 'full', 'list', 'neglist', 'slice', 'negslice', 'int', 'tuple', 'ellipsis', 'nonflat_list']
FMT_ALL = ['dense', 'dense_cp', 'coo', 'coo_cp', 'csr', 'csc', 'coo_sp', 'diag', 'csr_cp', 'csc_cp', 'coosp_cp']
SPARSE_CP = ('csr_cp', 'csc_cp', 'coosp_cp')     # scipy sparse value, assigned anew at every linearization


def _gen_world_once(rng, k):
    """k: knob dict (see defaults below).  Returns the world plan."""
    K = dict(ncomp=(2, 6), forms=FORMS_BASIC, units=True, temps=False, scaling=0.0, neg_scaling=False,
             res_ref=False, cycle=0.0, groups=0.5, imp=0.0, quad=0.0, fmts=['dense', 'coo', 'csr'],
             mf=0.0, approx=0.0, shuffle=False, auto_ivc=0.3, promote=0.5, discrete=0.0,
             nl=['nlbgs', 'newton', 'nlbj'], ln=['direct', 'direct_csc', 'direct_dense', 'lnbgs', 'krylov'],
             root_ln=['direct', 'direct_csc', 'runonce', 'lnbgs', 'krylov'], shapes=SHAPES, bounds=False,
             two_outs=0.2, share_input=0.0)
    K.update(k)
    ncomp = rng.randint(*K['ncomp'])
    comps = []
    # ---- sources: one IVC with 1-2 outputs
    ivc = {'name': 'ivc', 'kind': 'ivc', 'group': '', 'prom': rng.random() < K['promote'], 'outs': [], 'ins': []}
    for j in range(rng.randint(1, 2)):
        shape = rng.choice(K['shapes'])
        n = int(np.prod(shape))
        ivc['outs'].append({'name': f'ivc_y{j}', 'shape': shape, 'units': _pick_unit(rng, K),
                            'val': [dyadic(rng, -4, 4, 2) for _ in range(n)]})
    comps.append(ivc)
    # ---- group layout: contiguous ranges of the logical order
    groups = {'': {'parent': None, 'prom': False}}
    assign = [''] * ncomp
    if ncomp >= 2 and rng.random() < K['groups']:
        a = rng.randint(0, ncomp - 2)
        b = rng.randint(a + 1, ncomp)       # [a, b)
        groups['g1'] = {'parent': '', 'prom': rng.random() < K['promote']}
        for i in range(a, b):
            assign[i] = 'g1'
        if b - a >= 2 and rng.random() < 0.4:
            c = rng.randint(a, b - 2)
            d = rng.randint(c + 1, b)
            groups['g1.g2'] = {'parent': 'g1', 'prom': rng.random() < K['promote']}
            for i in range(c, d):
                assign[i] = 'g1.g2'
    # ---- components
    for ci in range(ncomp):
        name = f'c{ci}'
        kind = 'imp' if rng.random() < K['imp'] else 'aff'
        if kind == 'imp' and K.get('imp2') and rng.random() < K['imp2']:
            kind = 'imp2'       # implicit component with two states, the second residual reads the first state
        comp = {'name': name, 'kind': kind, 'group': assign[ci], 'prom': rng.random() < K['promote'],
                'outs': [], 'ins': [], 'A': {}, 'b': {}, 'fmt': {}, 'mf': False}
        nout = 1 if kind == 'imp' else (2 if kind == 'imp2' or rng.random() < K['two_outs'] else 1)
        for j in range(nout):
            shape = rng.choice(K['shapes'])
            o = {'name': f'{name}_y{j}', 'shape': shape, 'units': _pick_unit(rng, K)}
            n = int(np.prod(shape))
            if rng.random() < K['scaling']:
                _scale(rng, o, n, K)
            if K['bounds'] and rng.random() < 0.3:
                o['lower'] = -1e3
                o['upper'] = 1e3
            comp['outs'].append(o)
        nin = rng.randint(2, 3) if kind == 'imp2' else rng.randint(1, 2)
        for j in range(nin):
            prev_outs = [(c, o) for c in comps for o in c['outs']]
            use_auto = rng.random() < K['auto_ivc']
            inp = {'name': f'{name}_x{j}'}
            if use_auto:
                shape = rng.choice(K['shapes'])
                inp.update({'shape': shape, 'units': _pick_unit(rng, K), 'src': None, 'idx': None, 'flat': False,
                            'via': 'auto', 'val': [dyadic(rng, -4, 4, 2) for _ in range(int(np.prod(shape)))]})
                if K.get('default_units') and inp['units'] in list(LEN) + list(TIME) and rng.random() < K['default_units']:
                    # the group-level default (set_input_defaults) gives the automatic source other units than
                    # the input's own -- only for engines that compare recorded with reloaded values (no
                    # reference model reads this)
                    # (only defaults that make the numbers smaller in the input's own units: the worlds are
                    # validated for the magnitudes of the plan)
                    cand = [u for u in (LEN if inp['units'] in LEN else TIME) if conv(u, inp['units'])[0] <= 1.0]
                    inp['default_units'] = rng.choice(cand)
            else:
                sc, so = rng.choice(prev_outs)
                if j > 0 and comp['ins'] and comp['ins'][-1].get('src') and rng.random() < K.get('same_src', 0.0):
                    # a second input taken from the same source (other entries / other units): the two
                    # sub-jacobians share one block of an assembled matrix
                    so = next(o for c_ in comps for o in c_['outs'] if o['name'] == comp['ins'][-1]['src'])
                idx, flat = gen_index(rng, so['shape'], K['forms'])
                sel, shape = apply_index(so['shape'], idx, flat)
                inp.update({'shape': shape, 'units': compatible(so['units'], rng) if K['units'] else so['units'],
                            'src': so['name'], 'idx': idx, 'flat': flat, 'via': 'connect'})
                if idx is None and rng.random() < 0.35:
                    inp['via'] = 'promote'
            comp['ins'].append(inp)
        _fill_math(rng, comp, K)
        comps.append(comp)
    tap_src_group = None
    if K.get('tap') and rng.random() < K['tap']:
        # a "tap": one more root-level component reading a single entry of an output that lives in a subgroup
        # (any output if there is no subgroup).  With both ends chosen as responses, the tap's adjoint
        # right-hand side inside that subgroup is a multiple of one of the output's own seeds -- the case
        # the reverse-mode right-hand-side cache (rhs_checking) exists for.
        cands = [(c, o) for c in comps[1:] for o in c['outs'] if c['group']] or \
                [(c, o) for c in comps[1:] for o in c['outs']]
        if cands:
            sc, so = rng.choice(cands)
            if len(groups) == 1:
                # no subgroup yet: the tapped component becomes a group of its own (a root-level solver's
                # right-hand sides are unit seeds, never multiples of each other)
                groups['g1'] = {'parent': '', 'prom': rng.random() < K['promote']}
                sc['group'] = 'g1'
            n = int(np.prod(so['shape']))
            name = f'c{ncomp}'
            tap = {'name': name, 'kind': 'aff', 'group': '', 'prom': False, 'outs': [], 'ins': [], 'A': {}, 'b': {},
                   'fmt': {}, 'mf': False, 'tap_of': so['name']}
            tap['outs'].append({'name': f'{name}_y0', 'shape': rng.choice([[1], [2]]), 'units': _pick_unit(rng, K)})
            tap['ins'].append({'name': f'{name}_x0', 'shape': [1],
                               'units': compatible(so['units'], rng) if K['units'] else so['units'],
                               'src': so['name'], 'idx': {'k': 'int', 'v': rng.randint(-n, n - 1)}, 'flat': True,
                               'via': 'connect'})
            _fill_math(rng, tap, dict(K, quad=0.0, mf=0.0, approx=0.0))
            comps.append(tap)
            tap_src_group = sc['group'].split('.')[0] if rng.random() < 0.7 else sc['group']
    world = {'comps': comps, 'groups': groups, 'solvers': {}, 'cycle': None}
    # ---- optional feedback edge inside one group
    affs = [c for c in comps if c['kind'] in ('aff', 'imp')]
    if len(affs) >= 2 and rng.random() < K['cycle']:
        # choose a group that owns >= 2 components (root counts everything below it)
        cands = []
        for g in groups:
            mem = [c for c in affs if c['group'] == g or c['group'].startswith(g + '.') or g == '']
            if len(mem) >= 2:
                cands.append((g, mem))
        g, mem = rng.choice(cands)
        i = rng.randint(0, len(mem) - 2)
        j = rng.randint(i + 1, len(mem) - 1)
        early, late = mem[i], mem[j]
        so = rng.choice(late['outs'])
        idx, flat = gen_index(rng, so['shape'], [f for f in K['forms'] if f != 'promote'])
        sel, shape = apply_index(so['shape'], idx, flat)
        nm = f"{early['name']}_x{len(early['ins'])}"
        early['ins'].append({'name': nm, 'shape': shape, 'units': so['units'], 'src': so['name'], 'idx': idx,
                             'flat': flat, 'via': 'connect', 'feedback': True})
        nin = int(np.prod(shape))
        for o in early['outs']:
            m = int(np.prod(o['shape']))
            fmt = rng.choice(K['fmts'])
            if fmt == 'diag' and m != nin:
                fmt = 'dense'
            A = mat(rng, m, nin, sparse=0.3, den=16, lo=-1, hi=1)
            if fmt == 'diag':
                A = [[(A[r][c] if r == c else 0.0) for c in range(nin)] for r in range(m)]
            early['A'][o['name']][nm] = A
            early['fmt'][o['name'] + '|' + nm] = fmt
        world['cycle'] = {'group': g, 'early': early['name'], 'late': late['name']}
        world['solvers'][g] = {'nl': rng.choice(K['nl']), 'ln': rng.choice(K['ln']),
                               'aitken': rng.random() < 0.2, 'use_apply': rng.random() < 0.3,
                               'solve_subsystems': rng.random() < 0.3, 'rhs_checking': rng.random() < K.get('rhs_checking', 0.3)}
        # condition the loop: shrink the feedback gain until the non-negative majorant |M| has spectral
        # radius <= 0.4 (then every block Gauss-Seidel / Jacobi ordering of the cycle contracts)
        from .ref import Ref
        for _ in range(40):
            R = Ref(world)
            rho = max(abs(np.linalg.eigvals(np.abs(R.M)))) if R.N else 0.0
            if rho <= 0.4:
                break
            for o in early['outs']:
                early['A'][o['name']][nm] = [[v / 4 for v in row] for row in early['A'][o['name']][nm]]
    for s_ in world['solvers'].values():
        if s_['nl'] == 'broyden' and not s_['ln'].startswith('direct'):
            s_['ln'] = 'direct'        # documented requirement of BroydenSolver on a full model
    if any(c.get('mf') for c in comps):
        # assembled jacobians do not support matrix-free components
        for s_ in world['solvers'].values():
            if s_['ln'].startswith('direct_'):
                s_['ln'] = 'direct'
    if K.get('sub_ln', 0.0):
        # hierarchical linear solves: subgroups without a cycle may carry their own linear solver too
        for g in sorted(world['groups']):
            if g and g not in world['solvers'] and rng.random() < K['sub_ln']:
                ln = rng.choice(['direct', 'direct_csc', 'direct_dense', 'krylov', 'lnbgs'])
                if any(c.get('mf') for c in comps) and ln.startswith('direct_'):
                    ln = 'direct'
                world['solvers'][g] = {'nl': 'runonce', 'ln': ln,
                                       'rhs_checking': rng.random() < K.get('rhs_checking', 0.3)}
    if tap_src_group and tap_src_group not in world['solvers']:
        ln = rng.choice(['direct', 'direct_csc', 'direct_dense', 'krylov'])
        if any(c.get('mf') for c in comps) and ln.startswith('direct_'):
            ln = 'direct'
        world['solvers'][tap_src_group] = {'nl': 'runonce', 'ln': ln, 'rhs_checking': True}
    if '' not in world['solvers']:
        world['solvers'][''] = {'nl': 'runonce', 'ln': rng.choice(K['root_ln']),
                                'rhs_checking': rng.random() < K.get('rhs_checking', 0.3)}
        if any(c.get('mf') for c in comps) and world['solvers']['']['ln'].startswith('direct_'):
            world['solvers']['']['ln'] = 'direct'
    # implicit components without their own solve need Newton at the owning group: we always give the
    # stub a solve_nonlinear/solve_linear, so run-once stacks stay valid.
    # ---- optionally a chain of discrete variables: ivc -> stub -> stub ... (each stub passes its discrete input on)
    if K.get('discrete') and rng.random() < K['discrete'] and \
            not any(s_['nl'] in ('newton', 'broyden') for s_ in world['solvers'].values()):
        # (Newton and Broyden refuse systems that contain discrete outputs)
        chain = [c for c in comps if c['kind'] == 'aff' and not c.get('mf')]
        if chain:
            chain = chain[:rng.randint(1, min(3, len(chain)))] if rng.random() < 0.5 else \
                sorted(rng.sample(chain, rng.randint(1, min(3, len(chain)))), key=lambda c_: comps.index(c_))
            v0 = rng.choice([3, 'abc', [1, 2]])
            dflt = {int: 0, str: '', list: []}[type(v0)]      # (a discrete connection wants compatible types)
            ivc['discrete_out'] = [{'name': 'ivc_d0', 'val': v0}]
            src = 'ivc_d0'
            for c in chain:
                c['discrete_in'] = [{'name': c['name'] + '_di', 'val': dflt, 'src': src}]
                c['discrete_out'] = [{'name': c['name'] + '_do', 'val': dflt}]
                src = c['name'] + '_do'
    # ---- optionally two sibling components whose names are string prefixes of each other (c1 / c1x): path
    # matching by string prefix instead of by path component then confuses them
    if K.get('prefix_sibling') and rng.random() < K['prefix_sibling']:
        bygrp = {}
        for c in comps:
            if c['kind'] != 'ivc':
                bygrp.setdefault(c['group'], []).append(c)
        pairs = [v for v in bygrp.values() if len(v) >= 2]
        if pairs:
            grp = rng.choice(pairs)
            a_, b_ = rng.sample(grp, 2)
            new = a_['name'] + 'x'
            if world.get('cycle'):
                for k_ in ('early', 'late'):
                    if world['cycle'][k_] == b_['name']:
                        world['cycle'][k_] = new
            b_['name'] = new
            world['prefix_pair'] = [a_['name'], new]
    # ---- insertion order
    world['order'] = _orders(rng, world, K['shuffle'])
    world['auto_order'] = bool(K['shuffle'])
    # ---- design variables / responses
    world['dvs'], world['resps'] = _gen_voi(rng, world, K)
    return world


def _pick_unit(rng, K):
    if not K['units']:
        return None
    r = rng.random()
    if r < 0.35:
        return None
    if K['temps'] and r < 0.5:
        return rng.choice(list(TEMP))
    if r < 0.9:
        return rng.choice(['m', 'cm', 'mm', 'km'])
    return rng.choice(list(TIME))


def _scale(rng, o, n, K):
    pos = [2.0, 0.5, 10.0, 0.125, 100.0]
    neg = [-1.0, -4.0]
    if rng.random() < 0.5:
        o['ref'] = rng.choice(pos + (neg if K['neg_scaling'] else []))
        o['ref0'] = rng.choice([0.0, 0.0, 0.25, -1.0, 3.0] if K['neg_scaling'] else [0.0, 0.0, 0.25, -1.0])
        if o['ref'] == o['ref0']:
            o['ref0'] = 0.0
    else:
        o['ref'] = [rng.choice(pos + (neg if K['neg_scaling'] else [])) for _ in range(n)]
        o['ref0'] = [rng.choice([0.0, 0.25, -1.0]) for _ in range(n)]
        o['ref0'] = [0.0 if a == b else b for a, b in zip(o['ref'], o['ref0'])]
    if K['res_ref'] and rng.random() < 0.6:
        o['res_ref'] = rng.choice([1.0, 4.0, 0.25, 16.0]) if rng.random() < 0.6 else \
            [rng.choice([1.0, 4.0, 0.25]) for _ in range(n)]


def _fill_math(rng, comp, K):
    for o in comp['outs']:
        m = int(np.prod(o['shape']))
        comp['A'][o['name']] = {}
        comp['b'][o['name']] = [dyadic(rng, -4, 4, 2) for _ in range(m)]
        for inp in comp['ins']:
            n = int(np.prod(inp['shape']))
            fmt = rng.choice(K['fmts'])
            if fmt == 'diag' and m != n:
                fmt = 'dense'
            A = mat(rng, m, n)
            if fmt == 'diag':
                A = [[(A[r][c] if r == c else 0.0) for c in range(n)] for r in range(m)]
            comp['A'][o['name']][inp['name']] = A
            comp['fmt'][o['name'] + '|' + inp['name']] = fmt
    if comp['kind'] == 'aff' and K.get('sparse_decl') and len(comp['outs']) * len(comp['ins']) >= 2 and \
            rng.random() < K['sparse_decl']:
        # some (of, wrt) pairs do not depend on each other and the component does not declare them: the
        # framework prunes its dataflow / relevance graph with such missing partials
        pairs = [(o['name'], i['name']) for o in comp['outs'] for i in comp['ins']]
        for of_, wrt_ in rng.sample(pairs, rng.randint(1, len(pairs) - 1)):
            A_ = comp['A'][of_][wrt_]
            comp['A'][of_][wrt_] = [[0.0] * len(A_[0]) for _ in A_]
            comp.setdefault('undeclared', []).append(of_ + '|' + wrt_)
    if comp['kind'] == 'imp2':
        # R1 = D1 u1 - sum(A x | x feeds R1) - b1 ;  R2 = D2 u2 - C u1 - sum(A x | x feeds R2) - b2
        o1, o2 = comp['outs']
        feeds = {}
        for j, inp in enumerate(comp['ins']):
            feeds[inp['name']] = j if j < 2 else rng.choice([0, 1, 2])    # 2: both residuals
        comp['feeds'] = feeds
        comp['D'] = {}
        for j, o in enumerate(comp['outs']):
            m = int(np.prod(o['shape']))
            for inp in comp['ins']:
                if feeds[inp['name']] not in (j, 2):
                    A_ = comp['A'][o['name']][inp['name']]
                    comp['A'][o['name']][inp['name']] = [[0.0] * len(A_[0]) for _ in A_]
                    comp.setdefault('undeclared', []).append(o['name'] + '|' + inp['name'])
                elif comp['fmt'][o['name'] + '|' + inp['name']] in SPARSE_CP:
                    comp['fmt'][o['name'] + '|' + inp['name']] = 'coo_cp'
            comp['D'][o['name']] = [[(nz_dyadic(rng, 2, 4, 2) * rng.choice([1, -1]) if r == c else
                                      dyadic(rng, -1, 1, 4) * 0.5) for c in range(m)] for r in range(m)]
            comp['fmt'][o['name'] + '|' + o['name']] = rng.choice(['dense', 'coo', 'csr'])
        m1, m2 = int(np.prod(o1['shape'])), int(np.prod(o2['shape']))
        C = mat(rng, m2, m1, sparse=0.2)
        if not any(v for row in C for v in row):
            C[0][0] = 1.0
        comp['C'] = C
        comp['fmt'][o2['name'] + '|' + o1['name']] = rng.choice(['dense', 'coo', 'csr', 'dense_cp', 'coo_cp'])
    if comp['kind'] == 'imp':
        o = comp['outs'][0]
        m = int(np.prod(o['shape']))
        # well-conditioned D: diagonally dominant
        D = [[(nz_dyadic(rng, 2, 4, 2) * rng.choice([1, -1]) if r == c else dyadic(rng, -1, 1, 4) * 0.5)
              for c in range(m)] for r in range(m)]
        comp['D'] = D
        comp['fmt'][o['name'] + '|' + o['name']] = rng.choice(['dense', 'coo', 'csr'])
    if comp['kind'] == 'aff' and rng.random() < K['quad']:
        o = rng.choice(comp['outs'])
        inp = rng.choice(comp['ins'])
        if o['name'] + '|' + inp['name'] in comp.get('undeclared', []):
            comp['undeclared'].remove(o['name'] + '|' + inp['name'])
        m = int(np.prod(o['shape']))
        comp['quad'] = {'out': o['name'], 'in': inp['name'], 'coef': [dyadic(rng, -1, 1, 8) for _ in range(m)],
                        'normalise': True}
        key = o['name'] + '|' + inp['name']
        # the quadratic term fills column 0 whatever A's pattern is (the sparse forms store that column)
        comp['fmt'][key] = rng.choice(['dense_cp', 'dense_cp'] + [f for f in SPARSE_CP if f in K['fmts']])
    if comp['kind'] == 'aff' and rng.random() < K['mf']:
        comp['mf'] = True
    if comp['kind'] in ('aff', 'imp') and not comp.get('mf') and rng.random() < K['approx'] and \
            (comp['kind'] == 'aff' or K.get('approx_imp')):
        comp['approx'] = {'method': rng.choice(['fd', 'fd', 'cs']), 'form': rng.choice(['forward', 'backward', 'central']),
                          'step': rng.choice([1e-6, 1e-5, 1e-4]), 'step_calc': rng.choice(['abs', 'rel_avg', 'rel_element'])}
        if len(comp['ins']) >= 2 and rng.random() < 0.3:
            # different approximation methods for different inputs of one component
            comp['approx']['method'] = 'fd'
            comp['approx']['methods'] = {i['name']: rng.choice(['fd', 'cs']) for i in comp['ins']}


def children(world, g):
    """Direct children (component names and subgroup names) of group g in logical order."""
    out = []
    for c in world['comps']:
        if c['group'] == g:
            out.append(c['name'])
        elif g == '' or c['group'].startswith(g + '.'):
            rest = c['group'] if g == '' else c['group'][len(g) + 1:]
            top = rest.split('.')[0]
            full = top if g == '' else g + '.' + top
            if full not in out:
                out.append(full)
    return out


def _orders(rng, world, shuffle):
    orders = {}
    for g in world['groups']:
        ch = children(world, g)
        if shuffle:
            ch = list(ch)
            rng.shuffle(ch)
        orders[g] = ch
    return orders


def _gen_voi(rng, world, K=None):
    """Design variables among the independent variables, responses among component outputs; every
    response depends on at least one chosen design variable and vice versa (dependence taken from
    the reference model's own structure)."""
    from .ref import Ref
    R = Ref(world)
    with np.errstate(all='ignore'):
        reach = np.linalg.inv(np.eye(R.N) - 0.9 * np.abs(R.M) / max(1.0, np.abs(R.M).sum(axis=1).max())) > 1e-14
    comps = world['comps']
    srcs = [('out', o, o['name']) for c in comps if c['kind'] == 'ivc' for o in c['outs']]
    autos = [('auto', i, '_auto:' + i['name']) for c in comps for i in c['ins'] if i.get('via') == 'auto']
    outs = [o for c in comps if c['kind'] != 'ivc' for o in c['outs']]

    def dep(oname, key):
        so, no = R.off[oname]
        sw, nw = R.off[key]
        return bool(reach[so:so + no, sw:sw + nw].any())

    cand = srcs + autos
    rng.shuffle(cand)
    outs = list(outs)
    rng.shuffle(outs)
    if K and K.get('chain_resps') and rng.random() < K['chain_resps']:
        # responses that depend on other responses: the reverse-mode right-hand-side cache (rhs_checking) is
        # only consulted for those ("redundant adjoint systems"), so move a dependent pair to the front
        pairs = [(a, b_) for a in outs for b_ in outs if a is not b_ and dep(b_['name'], a['name'])]
        if pairs:
            # best reach: a lives in a subgroup with its own direct/Krylov solver, b outside of it -- then b's
            # adjoint right-hand side at that solver is often a multiple of one of a's
            grp_of = {o['name']: c['group'] for c in comps for o in c['outs']}

            def solver_group(o):
                g = grp_of[o['name']]
                while g:
                    if world['solvers'].get(g, {}).get('ln', '').split('_')[0] in ('direct', 'krylov'):
                        return g
                    g = world['groups'][g]['parent']
                return None
            good = [(a, b_) for a, b_ in pairs if solver_group(a) and
                    not (grp_of[b_['name']] + '.').startswith(solver_group(a) + '.')]
            # ... surely so when b's component reads a single entry of a
            thin = [(a, b_) for a, b_ in good
                    if any(i.get('src') == a['name'] and int(np.prod(i['shape'])) == 1
                           for c in comps if b_ in c['outs'] for i in c['ins'])]
            if thin and rng.random() < 0.8:
                good = thin
            taps = [(a, b_) for a, b_ in pairs
                    if any(c.get('tap_of') == a['name'] for c in comps if b_ in c['outs'])]
            if taps and rng.random() < 0.8:
                good = taps
            if good and rng.random() < 0.8:
                pairs = good
                a, b_ = rng.choice(pairs)
                if solver_group(a):
                    world['solvers'][solver_group(a)]['rhs_checking'] = True
            else:
                a, b_ = rng.choice(pairs)
            first = [a, b_] if rng.random() < 0.5 else [b_, a]
            outs = first + [o for o in outs if o is not a and o is not b_]
            chosen_r = [o for o in outs if any(dep(o['name'], key) for _, _, key in cand)][:rng.randint(2, 3)]
        else:
            chosen_r = [o for o in outs if any(dep(o['name'], key) for _, _, key in cand)][:rng.randint(1, 3)]
    else:
        chosen_r = [o for o in outs if any(dep(o['name'], key) for _, _, key in cand)][:rng.randint(1, 3)]
    chosen_d = [(kind, v, key) for kind, v, key in cand if any(dep(o['name'], key) for o in chosen_r)]
    chosen_d = chosen_d[:rng.randint(1, 3)]
    chosen_r = [o for o in chosen_r if any(dep(o['name'], key) for _, _, key in chosen_d)]
    dvs = []
    for kind, v, key in chosen_d:
        n = int(np.prod(v['shape']))
        dv = {'name': v['name'], 'kind': kind}
        if rng.random() < 0.4 and n > 1:
            dv['indices'] = sorted(rng.sample(range(n), rng.randint(1, n)))
            if rng.random() < 0.3:
                dv['indices'] = [i - n for i in dv['indices']]
        r = rng.random()
        if r < 0.25:
            dv['scaler'] = rng.choice([2.0, 0.5, 10.0])
            dv['adder'] = rng.choice([0.0, 1.0, -0.5])
        elif r < 0.45:
            dv['ref'] = rng.choice([2.0, 10.0, 0.5])
            dv['ref0'] = rng.choice([0.0, 1.0, -1.0])
        if K and rng.random() < K.get('voi_units', 0.0) and v['units'] is not None:
            dv['units'] = compatible(v['units'], rng)
        dvs.append(dv)
    resps = []
    for o in chosen_r:
        n = int(np.prod(o['shape']))
        r = {'name': o['name'], 'type': 'con' if resps else 'obj'}
        if r['type'] == 'obj' and n > 1:
            r['index'] = rng.randint(-n, n - 1)
        elif rng.random() < 0.4 and n > 1:
            r['indices'] = sorted(rng.sample(range(n), rng.randint(1, n)))
        rr = rng.random()
        if rr < 0.25:
            r['scaler'] = rng.choice([2.0, 0.5, 10.0])
            r['adder'] = rng.choice([0.0, 1.0])
        elif rr < 0.45:
            r['ref'] = rng.choice([2.0, 10.0, 0.5])
            r['ref0'] = rng.choice([0.0, 1.0, -1.0])
        if K and rng.random() < K.get('voi_units', 0.0) and o['units'] is not None:
            r['units'] = compatible(o['units'], rng)
        resps.append(r)
    return dvs, resps


def _normalise_quads(world):
    """Make the quadratic terms mild: coef / max(1, |x0|) with x0 from the affine solution, rounded to
    a power of two so the plan stays dyadic."""
    from .ref import Ref
    todo = [c for c in world['comps'] if c.get('quad', {}).get('normalise')]
    if not todo:
        return
    saved = {c['name']: c.pop('quad') for c in todo}
    R = Ref(world)
    y = R.solve()
    for c in todo:
        q = saved[c['name']]
        x0 = abs(float(R.input_val(q['in'], y)[0]))
        scale = 2.0 ** np.ceil(np.log2(max(1.0, x0)))
        q['coef'] = [v / scale / 4 for v in q['coef']]
        q.pop('normalise')
        c['quad'] = q


def gen_world(rng, k):
    """Generate until the plan validates: the reference converges, I - M - Jq is well conditioned
    (<= 1e4) and the loop majorant contracts.  Deterministic: retries draw from the same stream."""
    from .ref import Ref
    for attempt in range(50):
        w = _gen_world_once(rng, k)
        if not w['dvs'] or not w['resps']:
            continue
        try:
            _normalise_quads(w)
            R = Ref(w)
            y = R.solve()
            if not R.converged or not np.all(np.isfinite(y)):
                continue
            J = R.jac_full()
            A = np.abs(R.M) + np.abs(R.Jq)
            rho = max(abs(np.linalg.eigvals(A))) if R.N else 0.0
            if rho > 0.5:
                continue
            if np.linalg.cond(np.eye(R.N) - R.M - R.Jq) > 1e6 or not np.all(np.isfinite(J)):
                continue
            if np.max(np.abs(y)) > 1e7:
                continue
        except np.linalg.LinAlgError:
            continue
        w['attempt'] = attempt
        return w
    raise RuntimeError('no valid world in 50 attempts')
