"""Executor for worldsim plans: interprets the op/fault history of a plan against a real
om.Problem built from the world plan, mirrors it in the reference model and evaluates the
enabled invariants at every quiescent point."""
import contextlib
import copy
import io

import numpy as np

import openmdao.api as om
from openmdao.core.analysis_error import AnalysisError

from dst.core.util import Counter
from . import build as B
from .ref import Ref
from .spec import conv, apply_index, decode_index

EPS = np.finfo(float).eps

# Reach probe for the reverse-mode right-hand-side cache (rhs_checking): the class attribute is wrapped from
# outside the repository; the wrapper only counts, it never changes what the checker returns.
from openmdao.solvers.linear import linear_rhs_checker as _lrc     # noqa: E402
RHS_CACHE = Counter()
if not getattr(_lrc.LinearRHSChecker.get_solution, '_verif_counted', False):
    _orig_get_solution = _lrc.LinearRHSChecker.get_solution

    def _counted_get_solution(self, rhs_arr, system):
        sol, is_zero = _orig_get_solution(self, rhs_arr, system)
        RHS_CACHE.inc('rhs_cache_lookup')
        if sol is not None:
            RHS_CACHE.inc('rhs_cache_hit')
        return sol, is_zero
    _counted_get_solution._verif_counted = True
    _lrc.LinearRHSChecker.get_solution = _counted_get_solution


def variant_world(world, variant):
    w = copy.deepcopy(world)
    if not variant:
        return w
    for v in variant.split(','):
        if v == 'unscaled':
            for c in w['comps']:
                for o in c['outs']:
                    for k in ('ref', 'ref0', 'res_ref'):
                        o.pop(k, None)
        elif v.startswith('fmt:'):
            f = v[4:]
            for c in w['comps']:
                for k in c.get('fmt', {}):
                    if not c['fmt'][k].endswith('_cp') and c['fmt'][k] != 'diag':
                        c['fmt'][k] = f
        elif v.startswith('ln:'):
            for s in w['solvers'].values():
                s['ln'] = v[3:]
        elif v in ('norel', 'modefwd'):
            pass
        elif v == 'colored':
            for c in w['comps']:
                if c.get('approx'):
                    c['approx']['colored'] = True
    return w


def relerr(got, want, floor=1.0):
    got = np.asarray(got, dtype=float)
    want = np.asarray(want, dtype=float)
    if got.shape != want.shape:
        return np.inf
    if got.size == 0:
        return 0.0
    d = np.abs(got - want)
    if not np.all(np.isfinite(d)):
        return np.inf
    return float(d.max() / (np.abs(want).max() + floor))


class Sim:
    def __init__(self, plan, log, enable, name='w', variant=None, st=None, probes=None):
        self.plan = plan
        self.knobs = plan.get('knobs', {})
        self.variant = variant or ''
        self.world = variant_world(plan['world'], variant)
        self.log = log
        self.enable = set(enable)
        self.name = name
        self.viol = []
        self.st = st if st is not None else Counter()
        self.probes = probes if probes is not None else Counter()
        self.rt = B.Runtime(self.world, log)
        self.ref = Ref(self.world)
        self.p = None
        self.clean = False         # last run_model returned normally with no fault fired since
        self.setup_done = False
        self.results = []          # model-visible results (for twins / determinism / interleaving)
        self.own = B.owner_of(self.world)
        self.tol = 1e-6 if self._iterative() else 1e-8
        if any(s_['ln'].startswith('krylov') for s_ in self.world['solvers'].values()):
            self.tol = 1e-5
        self.pending_faults = []
        self._fired_at_setup = 0
        RHS_CACHE.clear()
        self.stale_outputs = set()     # outputs overwritten by set_val since last run
        self.void = False
        self.resid_current = False

    # ------------------------------------------------------------------ helpers
    def _iterative(self):
        for s in self.world['solvers'].values():
            if s['nl'] != 'runonce' or s['ln'].split('_')[0] in ('lnbgs', 'lnbj', 'krylov'):
                return True
        return False

    def _iterative_linear(self):
        return any(s['ln'].split('_')[0] in ('lnbgs', 'lnbj', 'krylov') for s in self.world['solvers'].values())

    def V(self, inv, msg, **kw):
        d = {'inv': inv, 'msg': f"[{self.name}{'/' + self.variant if self.variant else ''}] {msg}"}
        d.update(kw)
        self.viol.append(d)

    def absn(self, var):
        return B.abs_name(self.world, var)

    def promn(self, var):
        return B.rel_name(self.world, var, '')

    def nl_tol(self):
        y = self.ref.solve()
        mag = max(1.0, float(np.linalg.norm(y)))
        # magnitude-relative atol so that a converged state is recognised as converged on a re-run; the
        # factor leaves room for set_val moving the design point (unit factors up to 1e3)
        return {'atol': 1e-11 * mag, 'rtol': 1e-12, 'maxiter': 300}

    def state_err_bound(self):
        """Absolute error a nonlinear solver may leave in any output when it stops on its residual norm:
        |e| <= |(I - M - Jq)^-1| * atol * (largest residual scaling).  Unit factors of 1e3 on the
        connections of a cycle make this much larger than atol itself.  Zero for run-once worlds."""
        if all(s_['nl'] == 'runonce' for s_ in self.world['solvers'].values()):
            return 0.0
        try:
            g = float(np.linalg.norm(self.ref.jac_full(self.ref.solve()), 2))
        except np.linalg.LinAlgError:
            return 0.0
        sc = 1.0
        for c in self.world['comps']:
            for o in c['outs']:
                for k in ('res_ref', 'ref'):
                    if k in o:
                        sc = max(sc, float(np.max(np.abs(o[k]))))
        return 2.0 * g * self.nl_tol()['atol'] * sc

    def ref_well_posed(self):
        """The reference converges at the current design point and its loop majorant contracts."""
        try:
            y = self.ref.solve()
            if not self.ref.converged or not np.all(np.isfinite(y)):
                return False
            self.ref.jac_full(y)
            A = np.abs(self.ref.M) + np.abs(self.ref.Jq)
            rho = max(abs(np.linalg.eigvals(A))) if self.ref.N else 0.0
            return bool(rho <= 0.5 and np.max(np.abs(y)) < 1e7)
        except np.linalg.LinAlgError:
            return False

    # ------------------------------------------------------------------ ops
    def do(self, op):
        kind = op['op']
        self.st.inc('ops')
        self.st.inc('op_' + kind)
        self.log.ev('op', self.name, kind)
        fn = getattr(self, 'op_' + kind)
        fired_before = len(self.rt.fired)
        kfail_before = self.rt.krylov_fail
        raised = None
        self._note_rel_step_values()
        try:
            with contextlib.redirect_stdout(io.StringIO()):
                res = fn(op)
        except AnalysisError as e:
            raised = e
            res = None
            self.log.ev('raised', self.name, 'AnalysisError', 'sim-fault' in str(e))
            if 'sim-fault' not in str(e):
                # a solver reported non-convergence although no fault was injected into this op
                if len(self.rt.fired) == fired_before:
                    self.probes.inc('unforced_analysis_error')
                    if 'BROYDEN' in str(e) and len(self.rt.fired) > self._fired_at_setup:
                        # Broyden carries its inverse-Jacobian estimate from solve to solve; the re-solves
                        # that follow an injected fault (from reset guesses) feed it secant updates of poor
                        # quality, after which it may stagnate -- and says so.  A quasi-Newton method with
                        # degraded memory has no convergence guarantee even where the reference contracts,
                        # so the precondition "all solvers converge" is void from here on (not a violation).
                        self.void = True
                        self.probes.inc('broyden_nonconvergence_after_fault_history_void')
                    elif self.ref.quads and self.world['cycle'] is not None and \
                            any(t in str(e) for t in ('NL: NLBJ', 'NL: NLBGS')):
                        # ref_well_posed() establishes contraction at the root only.  For a quadratic map in
                        # a cycle that says nothing about a fixed-point iteration started from the declared
                        # initial values or from the previous design point: Jacobi/Gauss-Seidel sweeps may
                        # leave the basin and blow up (and report it).  No property states that they converge.
                        self.void = True
                        self.probes.inc('fixed_point_divergence_in_quadratic_cycle_void')
                    elif self.ref_well_posed():
                        self.V('I-converge', f"op {kind}: AnalysisError without an injected fault at a design point "
                               f"the reference model solves easily: {str(e)[:300]}")
                    else:
                        # the history moved the design point somewhere the (quadratic) world has no easy
                        # solution: the property's precondition (all solvers converge) is void from here on
                        self.void = True
                        self.probes.inc('history_left_well_posed_region')
        except Exception as e:     # noqa: a valid API call must not blow up
            import re
            import traceback
            raised = e
            res = None
            tb = traceback.extract_tb(e.__traceback__)
            where = next((f"{f.filename.split('/repo/')[-1]}:{f.name}" for f in reversed(tb) if '/repo/' in f.filename),
                         'harness')
            if where == 'harness':
                raise
            text = re.sub(r'[-+]?\d[\d.e+-]*', '#', str(e))[:80]
            self.log.ev('raised', self.name, type(e).__name__)
            self.V('I-exception', f"op {op} raised {type(e).__name__}: {str(e)[:400]} (at {where})",
                   ctx=f"{type(e).__name__}@{where}:{text}")
        for k_ in list(RHS_CACHE):
            self.probes.inc(k_, RHS_CACHE.pop(k_))
        # A ScipyKrylov solver of this Problem reported non-convergence during the op (outside the randomised
        # sparsity computation of a colouring): whatever the op returned is not covered by any property, whose
        # common precondition is that the solvers converge.  WorldCheck.run drops a violation raised on such an op.
        self.krylov_failed = self.rt.krylov_fail > kfail_before
        self.probes['_kfail_' + self.name + self.variant] = int(self.krylov_failed)
        if self.krylov_failed:
            self.probes.inc('krylov_reported_nonconvergence_in_op')
        fired = len(self.rt.fired) - fired_before
        self._note_rel_step_values()
        if raised is None and fired == 0 and kind in ('totals', 'linearize') and not self.viol:
            self._check_rel_steps()
        if fired:
            self.st.inc('faulted_ops')
            self.clean = False
            if raised is None:
                self.probes.inc('fault_absorbed')
        if kind != 'fault':
            self.rt.disarm()
        if fired and any(f['kind'] == 'nan' for f in self.rt.fired[-fired:]) and self.p is not None and self.final:
            # user-script protocol after a component produced NaN: put finite guesses back into the outputs
            # (iterative solvers evaluate the residual of the current state first)
            self.rt.enabled = False
            try:
                for c in self.world['comps']:
                    if c['kind'] != 'ivc':
                        for o in c['outs']:
                            self.p.set_val(self.absn(o['name']), np.ones(o['shape']))
            finally:
                self.rt.enabled = True
            self.st.inc('nan_resets')
        if raised is not None:
            self.clean = False
        # are the residual vectors those of the current inputs/outputs?  (one-sided differences take them as
        # their base point): yes after an evaluation that returned normally, no after anything that moves
        # values without evaluating
        if raised is not None or fired or kind in ('set_val', 'setup', 'fault', 'final_setup'):
            self.resid_current = False
        elif kind in ('run_model', 'apply_nonlinear'):
            self.resid_current = True
        return res, raised, fired

    def op_setup(self, op):
        import openmdao.utils.relevance as rel
        tol = self.nl_tol()
        rel._no_relevance = ('norel' in self.variant)
        if op.get('same') and self.p is not None:
            # Problem.setup() called again on the same Problem object (what a user does after changing the
            # model): everything declared before the first setup is still in place
            try:
                kn = self.knobs
                mode = 'fwd' if 'modefwd' in self.variant else kn.get('mode', 'auto')
                self.p.setup(mode=mode, force_alloc_complex=bool(kn.get('complex', False)))
            finally:
                rel._no_relevance = False
            self.setup_done = True
            self._fired_at_setup = len(self.rt.fired)
            self.final = False
            self.clean = False
            self.ref = Ref(self.world)
            self.probes.inc('setup_again_on_same_problem')
            return None
        try:
            self.p, self.groups = B.build(self.world, self.rt, name=self.name, tol=tol,
                                          reorder=bool(self.world.get('auto_order')))
            kn = self.knobs
            if kn.get('approx_totals'):
                a = kn['approx_totals']
                self.p.model.approx_totals(method=a['method'], step=a.get('step'), form=a.get('form'),
                                           **({'step_calc': a['step_calc']} if a.get('step_calc') else {})) \
                    if a['method'] == 'fd' else self.p.model.approx_totals(method='cs')
            for g, a in (kn.get('group_approx') or {}).items():
                if g in self.groups:
                    if a['method'] == 'fd':
                        self.groups[g].approx_totals(method='fd', step=a.get('step'), form=a.get('form'),
                                                     **({'step_calc': a['step_calc']} if a.get('step_calc') else {}))
                    else:
                        self.groups[g].approx_totals(method='cs')
            if kn.get('approx_totals') and 'colored' in self.variant:
                self.p.model.declare_coloring(wrt='*', method=kn['approx_totals']['method'], num_full_jacs=2,
                                              tol=1e-20, show_summary=False, show_sparsity=False)
            if kn.get('total_coloring'):
                # dynamic simultaneous-derivative colouring of the totals (used by compute_totals when it is
                # asked for the driver's own design variables and responses)
                self.p.driver = om.ScipyOptimizeDriver()
                self.p.driver.declare_coloring(num_full_jacs=2, tol=1e-20, show_summary=False, show_sparsity=False,
                                               min_improve_pct=kn.get('coloring_min_improve', 5.0))
            mode = 'fwd' if 'modefwd' in self.variant else kn.get('mode', 'auto')
            self.p.setup(mode=mode, force_alloc_complex=bool(kn.get('complex', False)))
        finally:
            rel._no_relevance = False
        self.setup_done = True
        self._fired_at_setup = len(self.rt.fired)     # solver memory starts afresh here
        self.final = False
        self.clean = False
        # a fresh setup resets every value to its declared default
        self.ref = Ref(self.world)
        return None

    def op_linearize(self, op):
        # a model that approximates its own totals needs the driver to initialise the approximations
        # (documented on Group.run_linearize)
        if self.knobs.get('approx_totals'):
            self.p.model.run_linearize(driver=self.p.driver)
        else:
            self.p.model.run_linearize()

    def op_apply_nonlinear(self, op):
        # evaluate the residuals of the current (possibly unconverged) state: transfers the inputs and runs
        # every component's apply_nonlinear / compute without changing the outputs
        self.final = True
        self.p.final_setup()
        self.p.model.run_apply_nonlinear()

    def op_final_setup(self, op):
        self.p.final_setup()
        self.final = True

    def op_run_model(self, op):
        self.rt.trace = []
        self.final = True
        self.p.run_model()
        self.clean = True
        self.stale_outputs = set()
        self.st.inc('runs_ok')
        return None

    def _resolve(self, op):
        """(OpenMDAO name, independent-key or None, var dict, io)"""
        c, io_, v = self.own[op['var']]
        form = op.get('form', 'prom')
        if form == 'abs':
            name = self.absn(op['var'])
        else:
            name = self.promn(op['var'])
        key = None
        if io_ == 'out' and c['kind'] == 'ivc':
            key = op['var']
        elif io_ == 'in' and v.get('via') == 'auto':
            key = '_auto:' + op['var']
        return name, key, v, io_

    def op_set_val(self, op):
        name, key, v, io_ = self._resolve(op)
        n = int(np.prod(v['shape']))
        sel, shape = apply_index(v['shape'], op.get('idx'), op.get('flat', False))
        vals = np.array(op['vals'], dtype=float)
        vals = np.resize(vals, len(sel)).reshape(shape) if sel else vals[:0]
        if op.get('idx') is not None:
            # a scalar-selecting index (int, or a tuple of ints) takes a scalar value
            probe = np.zeros(v['shape'])[decode_index(op['idx'])]
            if np.ndim(probe) == 0:
                vals = vals.reshape(())
        kw = {}
        if op.get('idx') is not None:
            kw['indices'] = B.to_index(op['idx'])
        if op.get('units'):
            kw['units'] = op['units']
        self.p.set_val(name, vals, **kw)
        f, o = conv(op.get('units'), v['units']) if op.get('units') else (1.0, 0.0)
        phys = vals.ravel() * f + o
        if key is not None:
            cur = self.ref.indep[key].copy()
            cur[sel] = phys
            self.ref.indep[key] = cur
            self.clean = False
        elif io_ == 'out':
            self.stale_outputs.add(op['var'])
            self.clean = False
        return None

    def op_rescale(self, op):
        """The user changes the solver scaling (ref/ref0/res_ref) of some outputs; it takes effect at the next
        setup() of the same Problem (the stubs declare their outputs from the plan at every setup).  The unscaled
        twin ignores it."""
        if 'unscaled' in self.variant:
            return
        for c in self.world['comps']:
            for o in c['outs']:
                if o['name'] in op['scales']:
                    for k_ in ('ref', 'ref0', 'res_ref'):
                        o.pop(k_, None)
                    o.update(op['scales'][o['name']])
        self.probes.inc('solver_scaling_changed_before_resetup')

    def op_set_discrete(self, op):
        ivc = B.comp_by_name(self.world)['ivc']
        name = ivc['discrete_out'][0]['name']
        self.p.set_val(name if ivc['prom'] else 'ivc.' + name, op['val'])
        self.clean = False

    def op_fault(self, op):
        self.rt.arm([{k: op[k] for k in ('comp', 'method', 'n', 'kind')}])

    def op_rng(self, op):
        np.random.seed(op['seed'])
        for _ in range(op.get('draws', 0)):
            np.random.random()

    def _of_wrt(self, op):
        w = self.world
        of = [w['resps'][i] for i in op.get('of', range(len(w['resps'])))]
        wrt = [w['dvs'][i] for i in op.get('wrt', range(len(w['dvs'])))]
        return of, wrt

    def op_totals(self, op):
        of, wrt = self._of_wrt(op)
        kw = {}
        if op.get('explicit', True):
            kw['of'] = [self.promn(r['name']) for r in of]
            kw['wrt'] = [self.promn(d['name']) for d in wrt]
        T = self.p.compute_totals(return_format=op.get('fmt', 'flat_dict'),
                                  driver_scaling=bool(op.get('driver_scaling', False)), **kw)
        self.st.inc('totals')
        if self.knobs.get('total_coloring') and not op.get('explicit', True):
            ci = getattr(self.p.driver, '_coloring_info', None)
            if ci is not None and ci.coloring is not None:
                self.probes.inc('totals_computed_with_total_coloring')
            else:
                self.probes.inc('total_coloring_declared_but_rejected_or_absent')
        return self._totals_to_blocks(T, of, wrt, op)

    def _totals_to_blocks(self, T, of, wrt, op):
        fmt = op.get('fmt', 'flat_dict')
        out = {}
        if fmt == 'array':
            ro = 0
            sizes_r = [self._voi_size(r) for r in of]
            sizes_d = [self._voi_size(d) for d in wrt]
            for r, nr in zip(of, sizes_r):
                co = 0
                for d, nd in zip(wrt, sizes_d):
                    out[(r['name'], d['name'])] = np.array(T[ro:ro + nr, co:co + nd])
                    co += nd
                ro += nr
            return out
        for r in of:
            for d in wrt:
                a, b_ = self.promn(r['name']), self.promn(d['name'])
                if fmt == 'flat_dict':
                    out[(r['name'], d['name'])] = np.array(T[a, b_])
                else:
                    out[(r['name'], d['name'])] = np.array(T[a][b_])
        return out

    def _voi_idx(self, v):
        c, io_, var = self.own[v['name']]
        n = int(np.prod(var['shape']))
        if 'index' in v:
            return [v['index'] % n]
        if 'indices' in v:
            return [i % n for i in v['indices']]
        return list(range(n))

    def _voi_size(self, v):
        return len(self._voi_idx(v))

    def _voi_scale(self, v):
        """driver-scaling factor (value_scaled = (value + adder) * scaler)."""
        if 'scaler' in v:
            return v['scaler']
        if 'ref' in v or 'ref0' in v:
            # OpenMDAO: a missing ref is 1, a missing ref0 is 0 (general_utils.determine_adder_scaler)
            return 1.0 / (v.get('ref', 1.0) - v.get('ref0', 0.0))
        return 1.0

    def ref_total(self, J, r, d, driver_scaling=False, voi_units=True):
        key = d['name'] if d['kind'] == 'out' else '_auto:' + d['name']
        blk = self.ref.total(J, r['name'], key)
        blk = blk[np.ix_(self._voi_idx(r), self._voi_idx(d))]
        # units= on a design variable / response: the total is expressed in those units, with or without
        # driver scaling (value_in_voi_units = value * factor + offset)
        if voi_units and r.get('units'):
            blk = blk * conv(self.own[r['name']][2]['units'], r['units'])[0]
        if voi_units and d.get('units'):
            blk = blk / conv(self.own[d['name']][2]['units'], d['units'])[0]
        if driver_scaling:
            blk = blk * self._voi_scale(r) / self._voi_scale(d)
        return blk

    def op_check_partials(self, op):
        self.p.check_partials(out_stream=None, method=op.get('method', 'fd'))

    def op_check_totals(self, op):
        of, wrt = self._of_wrt(op)
        self.p.check_totals(of=[self.promn(r['name']) for r in of], wrt=[self.promn(d['name']) for d in wrt],
                            out_stream=None, directional=bool(op.get('directional', False)),
                            method=op.get('method', 'fd'))

    def op_coloring(self, op):
        import openmdao.utils.coloring as cm
        cm.compute_total_coloring(self.p, num_full_jacs=op.get('num_full_jacs', 2), tol=1e-25)

    def op_list_outputs(self, op):
        self.p.model.list_outputs(out_stream=None, residuals=bool(op.get('residuals', True)))

    def op_list_inputs(self, op):
        self.p.model.list_inputs(out_stream=None)

    def op_list_vars(self, op):
        self.p.model.list_vars(out_stream=None)

    def op_jacvec(self, op):
        """<w, J v> and <J^T w, v> through compute_jacvec_product."""
        of, wrt = self._of_wrt(op)
        rs = np.random.default_rng(op.get('seed', 0))
        ofn = [self.promn(r['name']) for r in of]
        wrn = [self.promn(d['name']) for d in wrt]
        v = {n: rs.integers(-4, 5, size=int(np.prod(self.own[d['name']][2]['shape']))).astype(float) / 2
             for n, d in zip(wrn, wrt)}
        w = {n: rs.integers(-4, 5, size=int(np.prod(self.own[r['name']][2]['shape']))).astype(float) / 2
             for n, r in zip(ofn, of)}
        self.p.model.run_linearize()
        # a product in a given direction needs the problem to have been set up for that direction
        # (reverse transfers only exist after setup(mode='rev'))
        mode = self.p._orig_mode if getattr(self.p, '_orig_mode', None) in ('fwd', 'rev') else self.p._mode
        Jv, JTw = {}, {}
        if mode == 'fwd':
            Jv = self.p.compute_jacvec_product(ofn, wrn, 'fwd', {k: x.copy() for k, x in v.items()})
        else:
            JTw = self.p.compute_jacvec_product(ofn, wrn, 'rev', {k: x.copy() for k, x in w.items()})
        self.st.inc('jacvec')
        return {'v': v, 'w': w, 'Jv': {k: np.array(x) for k, x in Jv.items()},
                'JTw': {k: np.array(x) for k, x in JTw.items()}, 'of': of, 'wrt': wrt, 'mode': mode}

    def vec_names(self):
        """[(reference key, absolute output name)] for every output of the root vector."""
        out = []
        m = self.p.model
        for c in self.world['comps']:
            for o in c['outs']:
                out.append((o['name'], self.absn(o['name'])))
            for i in c['ins']:
                if i.get('via') == 'auto':
                    out.append(('_auto:' + i['name'], m._conn_global_abs_in2out[self.absn(i['name'])]))
        return out

    def _set_lin(self, vec, arr):
        for key, absname in self.vec_names():
            s_, sz = self.ref.off[key]
            vec._abs_get_val(absname, flat=True)[:] = arr[s_:s_ + sz]

    def _get_lin(self, vec):
        out = np.zeros(self.ref.N)
        for key, absname in self.vec_names():
            s_, sz = self.ref.off[key]
            out[s_:s_ + sz] = np.array(vec._abs_get_val(absname, flat=True)).real
        return out

    def op_linops(self, op):
        """Root-level apply_linear / solve_linear in fwd and rev on seeded vectors (reference layout)."""
        m = self.p.model
        rs = np.random.default_rng(op.get('seed', 0))
        N = self.ref.N
        v = rs.integers(-4, 5, size=N).astype(float) / 2
        w = rs.integers(-4, 5, size=N).astype(float) / 2
        m.run_linearize()
        modes = ['fwd'] + (['rev'] if self.p._orig_mode == 'rev' else [])
        res = {'v': v, 'w': w}
        for vec in (m._doutputs, m._dresiduals, m._dinputs):
            vec.set_val(0.0)
        self._set_lin(m._doutputs, v)
        m.run_apply_linear('fwd')
        res['Av'] = self._get_lin(m._dresiduals)
        if 'rev' in modes:
            for vec in (m._doutputs, m._dresiduals, m._dinputs):
                vec.set_val(0.0)
            self._set_lin(m._dresiduals, w)
            m.run_apply_linear('rev')
            res['ATw'] = self._get_lin(m._doutputs)
        if op.get('solve', True):
            for vec in (m._doutputs, m._dresiduals, m._dinputs):
                vec.set_val(0.0)
            self._set_lin(m._dresiduals, v)
            m.run_solve_linear('fwd')
            res['Sv'] = self._get_lin(m._doutputs)
            if 'rev' in modes:
                for vec in (m._doutputs, m._dresiduals, m._dinputs):
                    vec.set_val(0.0)
                self._set_lin(m._doutputs, w)
                m.run_solve_linear('rev')
                res['STw'] = self._get_lin(m._dresiduals)
        for vec in (m._doutputs, m._dresiduals, m._dinputs):
            vec.set_val(0.0)
        self.st.inc('linops')
        return res

    # ------------------------------------------------------------------ state snapshots
    def state_bytes(self, with_resid=False):
        m = self.p.model
        parts = [m._inputs.asarray().tobytes(), m._outputs.asarray().tobytes()]
        if with_resid:
            parts.append(m._residuals.asarray().tobytes())
        return b'|'.join(parts)

    def model_state(self):
        """The model's current outputs in the reference layout, or None if some are not finite."""
        y = np.zeros(self.ref.N)
        for key, absname in self.vec_names():
            s_, sz = self.ref.off[key]
            y[s_:s_ + sz] = np.array(self.p.get_val(absname)).ravel()
        return y if np.all(np.isfinite(y)) else None

    def outputs_vec(self):
        return self.p.model._outputs.asarray(copy=True)

    # ------------------------------------------------------------------ invariants
    def check_values(self, inv_out='I-08-outputs', inv_in='I-04-inputs'):
        """After a clean run: outputs and inputs against the reference."""
        if any(s_['nl'] == 'broyden' for s_ in self.world['solvers'].values()):
            # BroydenSolver over a whole model carries the independent variables in its state vector.  Their
            # rows of the inverse-Jacobian estimate are zero only up to the round-off of the LU inverse; during a
            # divergent excursion (residual 1e12) that round-off times the residual moved an automatic source
            # by 1.6e-4 (observed).  None of the properties states that a solver leaves independents alone, and
            # everything else is then the converged model of *other* inputs: counted, not judged.
            for key, absname in self.vec_names():
                if key in self.ref.indep:
                    got = np.array(self.p.get_val(absname)).ravel()
                    if got.shape == self.ref.indep[key].shape and np.all(np.isfinite(got)) and \
                            relerr(got, self.ref.indep[key]) > 1e-13:
                        self.void = True
                        self.probes.inc('broyden_moved_an_independent_variable_void')
                        return True
        y = self.ref.solve()
        if self.ref.quads and self.world['cycle'] is not None:
            # a cyclic quadratic world has several roots: anchor the reference at the root nearest to
            # the model's converged state, provided that state satisfies the reference equations
            y_om = y.copy()
            for key, absname in self.vec_names():
                s_, sz = self.ref.off[key]
                y_om[s_:s_ + sz] = np.array(self.p.get_val(absname)).ravel()
            if np.all(np.isfinite(y_om)) and relerr(y_om, y) > self.tol:
                r = self.ref.residual(y_om)
                if np.max(np.abs(r)) <= 1e-6 * (1 + np.max(np.abs(y_om))):
                    try:
                        y2 = self.ref.polish(y_om)
                        if np.all(np.isfinite(y2)) and relerr(y2, y_om) <= 1e-5:
                            key = tuple(np.concatenate([v for k, v in sorted(self.ref.indep.items())]).tolist())
                            self.ref.anchor = (key, y2)
                            self.probes.inc('alternate_root_accepted')
                            y = self.ref.solve()
                    except np.linalg.LinAlgError:
                        pass
        worst = 0.0
        bound = self.state_err_bound()

        def off(got, want, e):
            # beyond the relative tolerance and beyond what the solver's stopping criterion allows
            return e > self.tol and not (got.shape == want.shape and np.all(np.isfinite(got)) and
                                         float(np.abs(got - want).max()) <= bound)
        for c in self.world['comps']:
            for o in c['outs']:
                got = self.p.get_val(self.absn(o['name'])).ravel()
                want = self.ref.val(o['name'], y)
                e = relerr(got, want)
                worst = max(worst, e)
                if off(got, want, e) and inv_out:
                    self.V(inv_out, f"output {o['name']} differs from the reference by {e:.3g} (rel): got "
                           f"{got.tolist()} want {want.tolist()}", var=o['name'])
                    return False
        if inv_in:
            for c in self.world['comps']:
                for i in c['ins']:
                    got = self.p.get_val(self.absn(i['name']), from_src=False).ravel()
                    want = self.ref.input_val(i['name'], y)
                    e = relerr(got, want)
                    if off(got, want, e):
                        self.V(inv_in, f"input {i['name']} (src {i.get('src')}, idx {i.get('idx')}, flat "
                               f"{i.get('flat')}, units {i.get('units')}) differs from its source by {e:.3g}: got "
                               f"{got.tolist()} want {want.tolist()}", var=i['name'])
                        return False
        self.st.inc('value_checks')
        return True

    def check_totals(self, blocks, op, inv='I-01-totals'):
        y = self.ref.solve()
        J = self.ref.jac_full(y)
        of, wrt = self._of_wrt(op)
        approximated = self.knobs.get('approx_totals') or self.knobs.get('group_approx') or \
            any(c.get('approx') for c in self.world['comps'])
        abound = self.approx_abs_bound() if approximated else 0.0
        # OpenMDAO expresses a total in the units= of the design variable / response only for the
        # "optimization jacobian", i.e. when all of the driver's responses and design variables are asked for
        # in their declared order (total_jac: `if not has_custom_derivs: self._identify_unit_active_vars()`);
        # any other of/wrt selection is answered in model units.
        opt_jac = [r['name'] for r in of] == [r['name'] for r in self.world['resps']] and \
            [d['name'] for d in wrt] == [d['name'] for d in self.world['dvs']]
        for r in of:
            for d in wrt:
                want = self.ref_total(J, r, d, bool(op.get('driver_scaling', False)), voi_units=opt_jac)
                got = blocks[(r['name'], d['name'])]
                e = relerr(got, want, floor=1e-3 * max(1.0, float(np.abs(J).max())) + 1e-12)
                tol = self.tol * 10
                if e > tol and abound > 0.0:
                    sc = abs(self._voi_scale(r) / self._voi_scale(d)) if op.get('driver_scaling') else 1.0
                    g_ = np.asarray(got, dtype=float)
                    if g_.shape == want.shape and np.all(np.isfinite(g_)) and \
                            float(np.abs(g_ - want).max()) <= abound * sc:
                        self.probes.inc('approx_error_within_method_bound')
                        if abound * sc >= 0.5 * (float(np.abs(want).max()) + 1e-300):
                            self.probes.inc('approx_bound_vacuous')
                        continue
                if e > tol:
                    self.V(inv, f"d({r['name']})/d({d['name']}) differs from the reference by {e:.3g} (rel): got "
                           f"{np.asarray(got).tolist()} want {want.tolist()} (mode={self.knobs.get('mode')}, "
                           f"fmt={op.get('fmt')}, driver_scaling={op.get('driver_scaling')})",
                           pair=(r['name'], d['name']))
                    return False
        self.st.inc('totals_checked')
        return True

    def _rel_step_scopes(self):
        """[(group object, knob dict)] of the group-level FD approximations that were asked for a relative step."""
        out = []
        if self.p is None or not self.setup_done or 'colored' in self.variant:
            # (the coloured twin declares its colouring with declare_coloring's own step options)
            return out
        a = self.knobs.get('approx_totals')
        if a and a['method'] == 'fd' and a.get('step_calc') == 'rel_avg':
            out.append((self.p.model, a))
        for g, a in (self.knobs.get('group_approx') or {}).items():
            if g in getattr(self, 'groups', {}) and a['method'] == 'fd' and a.get('step_calc') == 'rel_avg':
                out.append((self.groups[g], a))
        return out

    def _note_rel_step_values(self):
        """Relative steps are computed from the value a wrt variable has when the approximation is initialised
        (and kept): remember the mean |value| of every candidate at every op boundary."""
        try:
            for grp, a in self._rel_step_scopes():
                seen = self.__dict__.setdefault('_rel_means', {}).setdefault(grp.pathname, {})
                for vec in (grp._inputs, grp._outputs):
                    for name in vec._views:
                        v = np.abs(np.asarray(vec._abs_get_val(name), dtype=complex).real).ravel()
                        if v.size:
                            seen.setdefault(name, set()).add(float(v.sum() / v.size))
        except Exception:       # noqa
            pass

    def _check_rel_steps(self):
        """I-12-steps: every step a group-level approximation holds for a wrt variable is step * mean|value| of
        THAT variable at one of the states the history has passed through (or the documented minimum step)."""
        for grp, a in self._rel_step_scopes():
            scheme = grp._approx_schemes.get('fd')
            seen = getattr(self, '_rel_means', {}).get(grp.pathname, {})
            if scheme is None:
                continue
            for entry in (scheme._approx_groups or []):
                wrt = entry[0]
                if not isinstance(wrt, str) or wrt not in seen:
                    continue
                h = float(np.max(np.abs(np.asarray(entry[1][0], dtype=float))))
                want = sorted({max(a['step'] * m, 1e-12) for m in seen[wrt]})
                self.probes.inc('relative_group_steps_compared')
                if not any(abs(h - e) <= 1e-9 * e for e in want):
                    self.V('I-12-steps', f"group {grp.pathname!r} approximates wrt {wrt} with step {h!r}; "
                           f"step_calc='rel_avg', step={a['step']} and the values this variable has had give "
                           f"{want[:4]}")
                    return

    def _used_fd_steps(self, c):
        """(min, max) finite-difference step currently cached by the approximation scheme of component c (a
        plan dict) or of a group (its plan name, '' for the model)."""
        try:
            if isinstance(c, str):
                comp = self.groups[c]
            else:
                comp = self.p.model._get_subsystem(self.absn(c['outs'][0]['name']).rsplit('.', 1)[0])
            steps = []
            for name, scheme in comp._approx_schemes.items():
                if name != 'fd':
                    continue
                for grp in (scheme._approx_groups or []):
                    steps.append(np.abs(np.asarray(grp[1][0], dtype=float)).ravel())
                for grp in (scheme._colored_approx_groups or []):
                    steps.append(np.abs(np.asarray(grp[0][0], dtype=float)).ravel())
            steps = np.concatenate(steps) if steps else np.zeros(0)
            steps = steps[steps > 0]
            return (float(steps.min()), float(steps.max())) if steps.size else None
        except Exception:
            return None

    def approx_abs_bound(self):
        """Absolute error an approximation may leave in any entry of a total derivative at the current state,
        from the plan alone: round-off amplification eps*|terms|/h with the *effective* step of every
        approximating component / group (relative step_calcs scale with the input values and fall back to
        OpenMDAO's documented minimum_step of 1e-12 at zero), first-order truncation c*h of one-sided
        differences on the quadratic stubs, the error nested iterative solvers leave in a differenced state,
        all carried to the totals through the reference's own gains.  0.0 if nothing is approximated."""
        y = self.ref.solve()
        S = self.ref.jac_full(y)
        gain = (1.0 + float(np.abs(S).max())) ** 2 * max(1, self.ref.N)
        ufac = 1.0
        for c in self.world['comps']:
            for i in c['ins']:
                if i.get('src'):
                    f, _o = conv(self.own[i['src']][2]['units'], i['units'])
                    ufac = max(ufac, abs(f), 1.0 / abs(f))
        quad_c = max([float(np.abs(q[2]).max()) for q in self.ref.quads], default=0.0)

        def terms(c):
            m = 0.0
            for o in c['outs']:
                t = np.abs(np.array(c['b'][o['name']], dtype=float))
                for i in c['ins']:
                    x = np.abs(self.ref.input_val(i['name'], y))
                    t = t + np.abs(np.array(c['A'][o['name']][i['name']], dtype=float)) @ x
                    m = max(m, float(x.max()) * float(np.abs(np.array(c['A'][o['name']][i['name']])).max()))
                m = max(m, float(t.max()))
            q = c.get('quad')
            if q:
                x0 = float(self.ref.input_val(q['in'], y)[0])
                m += float(np.abs(q['coef']).max()) * x0 * x0
            if c['kind'] == 'imp':
                u = np.abs(self.ref.val(c['outs'][0]['name'], y))
                m += float((np.abs(np.array(c['D'], dtype=float)) @ u).max())
            return m + 1.0
        delta = 0.0
        stubs = [c for c in self.world['comps'] if c['kind'] != 'ivc']
        for c in stubs:
            a = c.get('approx')
            if not a:
                continue
            if a['method'] == 'cs':
                delta += 1e-13 * terms(c)
                continue
            hmin, hmax = np.inf, 0.0
            wrts = [np.abs(self.ref.input_val(i['name'], y)) for i in c['ins']]
            if c['kind'] == 'imp':
                wrts.append(np.abs(self.ref.val(c['outs'][0]['name'], y)))
            for x in wrts:
                sc = a.get('step_calc', 'abs')
                if sc == 'abs':
                    h = np.array([a['step']])
                elif sc in ('rel_avg', 'rel'):
                    h = np.array([max(a['step'] * float(x.sum()) / len(x), 1e-12)])
                elif sc == 'rel_legacy':
                    h = np.array([max(a['step'] * float(np.linalg.norm(x)), 1e-12)])
                else:
                    h = np.maximum(a['step'] * x, 1e-12)
                hmin, hmax = min(hmin, float(h.min())), max(hmax, float(h.max()))
            # relative steps are computed once, at the state of the component's first linearization (which may
            # be an unconverged Newton iterate or the declared initial values), and kept: read the steps the
            # framework really holds and bound with the smaller / larger of the two
            used = self._used_fd_steps(c)
            if used:
                hmin, hmax = min(hmin, used[0]), max(hmax, used[1])
            delta += 64 * EPS * terms(c) / hmin
            if a['form'] != 'central' and self._iterative():
                # base point of one-sided differences = the residual vector, which after an iterative solve is
                # the residual of the last iterate the solver looked at (within its tolerance of the current one)
                sc_ = max([float(np.max(np.abs(o[k_]))) for o in c['outs'] for k_ in ('res_ref', 'ref') if k_ in o] + [1.0])
                delta += 10.0 * self.nl_tol()['atol'] * sc_ / hmin
            if c.get('quad') and a['form'] != 'central':
                delta += float(np.abs(c['quad']['coef']).max()) * hmax
        ga_scoped = [(g_, a) for g_, a in (self.knobs.get('group_approx') or {}).items() if g_ in self.world['groups']]
        if self.knobs.get('approx_totals'):
            ga_scoped.append(('', self.knobs['approx_totals']))
        for g_, a in ga_scoped:
            allterms = max([terms(c) for c in stubs], default=1.0)
            fixed_point_inside = any(s_['nl'] in ('nlbgs', 'nlbj', 'broyden') for gn, s_ in self.world['solvers'].items()
                                     if g_ == '' or gn == g_ or gn.startswith(g_ + '.'))
            if a['method'] == 'cs':
                delta += 1e-13 * allterms
                if fixed_point_inside:
                    # Under a complex step the solver still stops on its (real) residual: it is nudged by
                    # 1e-10*|y| (cs_reconverge) and sweeps until atol = 1e-11*|y| is met again, so the
                    # imaginary part -- the derivative -- is only contracted by about that ratio.  The
                    # accuracy of cs across a fixed-point solver is the solver's, not round-off.
                    delta += 0.5 * float(np.abs(S).max())
                    self.probes.inc('cs_across_fixed_point_solver_bound_vacuous')
                continue
            h = hmax = a.get('step') or 1e-6
            # a group's approximation inherits step_calc (and anything else it does not set itself) from the
            # metadata of partials its components declared as approximated, and relative steps are computed
            # once and kept: bound with the steps the framework really holds
            used = self._used_fd_steps(g_)
            if used:
                h, hmax = min(h, used[0]), max(hmax, used[1])
            delta += 64 * EPS * allterms * ufac / h + 2.0 * self.state_err_bound() / h
            if a.get('form', 'forward') != 'central':
                delta += quad_c * hmax * ufac
        return delta * gain * ufac
