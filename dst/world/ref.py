"""Reference model of a world plan: built from the plan only, never from OpenMDAO objects.

Unknowns: every output variable (IVC outputs, component outputs/states) and every
auto-IVC-backed input (as an independent pseudo-output in the input's own units), in physical
units.  The world is  y = M y + b (+ q(y))  with M assembled from the plan's matrices, index
selections and unit factors.
"""
import numpy as np

from .spec import apply_index, conv


class Ref:
    def __init__(self, world):
        self.world = world
        self.off = {}
        self.meta = {}
        n = 0
        for c in world['comps']:
            for o in c['outs']:
                sz = int(np.prod(o['shape']))
                self.off[o['name']] = (n, sz)
                self.meta[o['name']] = o
                n += sz
            for i in c['ins']:
                if i.get('via') == 'auto':
                    sz = int(np.prod(i['shape']))
                    self.off['_auto:' + i['name']] = (n, sz)
                    n += sz
        self.N = n
        self.indep = {}        # name -> current value (physical, flat)
        for c in world['comps']:
            if c['kind'] == 'ivc':
                for o in c['outs']:
                    self.indep[o['name']] = np.array(o['val'], dtype=float)
            for i in c['ins']:
                if i.get('via') == 'auto':
                    self.indep['_auto:' + i['name']] = np.array(i['val'], dtype=float)
        self._build()

    # ------------------------------------------------------------------ structure
    def in_map(self, inp):
        """(P, off): x_in(flat) = P @ y + off."""
        n = int(np.prod(inp['shape']))
        P = np.zeros((n, self.N))
        if inp.get('via') == 'auto':
            s, sz = self.off['_auto:' + inp['name']]
            P[np.arange(n), s + np.arange(n)] = 1.0
            return P, np.zeros(n)
        src = self.meta[inp['src']]
        sel, shape = apply_index(src['shape'], inp['idx'], inp['flat'])
        f, o = conv(src['units'], inp['units'])
        s, sz = self.off[inp['src']]
        for r, k in enumerate(sel):
            P[r, s + k] += f
        return P, np.full(n, o)

    def _build(self):
        N = self.N
        M = np.zeros((N, N))
        b0 = np.zeros(N)
        self.quads = []
        self.inmaps = {}
        for c in self.world['comps']:
            if c['kind'] == 'ivc':
                continue
            for i in c['ins']:
                self.inmaps[i['name']] = self.in_map(i)
            for o in c['outs']:
                s, sz = self.off[o['name']]
                rows = np.zeros((sz, N))
                rhs = np.array(c['b'][o['name']], dtype=float)
                for i in c['ins']:
                    A = np.array(c['A'][o['name']][i['name']], dtype=float)
                    P, off = self.inmaps[i['name']]
                    rows += A @ P
                    rhs = rhs + A @ off
                if c['kind'] == 'imp2':
                    if o is c['outs'][1]:
                        s1, sz1 = self.off[c['outs'][0]['name']]
                        rows[:, s1:s1 + sz1] += np.array(c['C'], dtype=float)
                    D = np.array(c['D'][o['name']], dtype=float)
                    rows = np.linalg.solve(D, rows)
                    rhs = np.linalg.solve(D, rhs)
                if c['kind'] == 'imp':
                    D = np.array(c['D'], dtype=float)
                    rows = np.linalg.solve(D, rows)
                    rhs = np.linalg.solve(D, rhs)
                M[s:s + sz] = rows
                b0[s:s + sz] = rhs
            q = c.get('quad')
            if q:
                s, sz = self.off[q['out']]
                P, off = self.inmaps[q['in']]
                self.quads.append((s, sz, np.array(q['coef'], dtype=float), P[0].copy(), off[0]))
        self.M, self.b0 = M, b0

    def b(self):
        b = self.b0.copy()
        for name, v in self.indep.items():
            s, sz = self.off[name]
            b[s:s + sz] = v
        return b

    # ------------------------------------------------------------------ solution
    def residual(self, y, b=None):
        b = self.b() if b is None else b
        F = self.M @ y + b - y
        for s, sz, coef, prow, o in self.quads:
            F[s:s + sz] += coef * (prow @ y + o) ** 2
        return F

    def polish(self, y0):
        """Newton from y0 to the nearest root (quadratic worlds have several)."""
        I = np.eye(self.N)
        b = self.b()
        y = np.array(y0, dtype=float)
        for _ in range(8):
            F = self.residual(y, b)
            Jq = np.zeros((self.N, self.N))
            for s, sz, coef, prow, o in self.quads:
                Jq[s:s + sz] += np.outer(2 * coef * (prow @ y + o), prow)
            y = y + np.linalg.solve(I - self.M - Jq, F)
        return y

    def solve(self):
        """Fixed point by sweeps in logical order from y = b (what a run-once / Gauss-Seidel pass
        does), polished by Newton.  Sets self.converged."""
        I = np.eye(self.N)
        b = self.b()
        anchor = getattr(self, 'anchor', None)
        if anchor is not None and self.quads:
            key = tuple(np.concatenate([v for k, v in sorted(self.indep.items())]).tolist())
            if key == anchor[0]:
                self.y, self.converged = anchor[1], True
                return self.y
        if not self.quads:
            y = np.linalg.solve(I - self.M, b)
            r = b - (I - self.M) @ y
            y = y + np.linalg.solve(I - self.M, r)
            self.y, self.converged = y, True
            return y
        # block sweeps (variables are laid out in logical order)
        y = np.zeros(self.N)
        for name, v in self.indep.items():
            s, sz = self.off[name]
            y[s:s + sz] = v
        blocks = [self.off[o['name']] for c in self.world['comps'] if c['kind'] != 'ivc' for o in c['outs']]
        self.converged = False
        for it in range(400):
            y_old = y.copy()
            for s, sz in blocks:
                y[s:s + sz] = self.M[s:s + sz] @ y + b[s:s + sz]
                for qs, qsz, coef, prow, o in self.quads:
                    if qs == s:
                        y[s:s + sz] += coef * (prow @ y + o) ** 2
            if not np.all(np.isfinite(y)):
                break
            if np.max(np.abs(y - y_old)) <= 1e-14 * (1 + np.max(np.abs(y))):
                self.converged = True
                break
        if self.converged:
            for _ in range(3):
                F = self.residual(y, b)
                Jq = np.zeros((self.N, self.N))
                for s, sz, coef, prow, o in self.quads:
                    Jq[s:s + sz] += np.outer(2 * coef * (prow @ y + o), prow)
                y = y + np.linalg.solve(I - self.M - Jq, F)
        self.y = y
        return y

    def jac_full(self, y=None):
        """dy/db = (I - M - dq/dy)^-1 at the solution."""
        y = self.y if y is None else y
        Jq = np.zeros((self.N, self.N))
        for s, sz, coef, prow, o in self.quads:
            x0 = prow @ y + o
            Jq[s:s + sz] += np.outer(2 * coef * x0, prow)
        self.Jq = Jq
        return np.linalg.inv(np.eye(self.N) - self.M - Jq)

    def val(self, name, y=None):
        y = self.y if y is None else y
        s, sz = self.off[name]
        return y[s:s + sz]

    def input_val(self, inp_name, y=None):
        y = self.y if y is None else y
        P, off = self.inmaps[inp_name]
        return P @ y + off

    def total(self, J, of, wrt):
        so, no = self.off[of]
        sw, nw = self.off[wrt]
        return J[so:so + no, sw:sw + nw]

    # ------------------------------------------------------------------ conditioning helpers
    def gs_contraction(self, order):
        """Spectral radius of the reference's own Gauss-Seidel and Jacobi iteration matrices for the
        given component execution order (list of lists of output names per executing block)."""
        N = self.N
        pos = np.zeros(N, dtype=int)
        for k, names in enumerate(order):
            for nm in names:
                s, sz = self.off[nm]
                pos[s:s + sz] = k
        M = self.M
        L = np.where(pos[:, None] > pos[None, :], M, 0.0)      # uses already-updated values
        U = M - L
        try:
            G = np.linalg.solve(np.eye(N) - L, U)
            rho_gs = max(abs(np.linalg.eigvals(G))) if N else 0.0
        except np.linalg.LinAlgError:
            rho_gs = np.inf
        rho_j = max(abs(np.linalg.eigvals(M))) if N else 0.0
        return float(rho_gs), float(rho_j)

    def cond(self):
        return float(np.linalg.cond(np.eye(self.N) - self.M))

    def lin_operator(self, y=None):
        """OpenMDAO's linear operator dR/dy over all outputs in physical units: explicit outputs carry
        -1 on the diagonal (dR = -dy + A dx), implicit states R = D u - A x - b, independents -I."""
        y = self.y if y is None else y
        N = self.N
        L = -np.eye(N)
        for c in self.world['comps']:
            if c['kind'] == 'ivc':
                continue
            for o in c['outs']:
                s, sz = self.off[o['name']]
                AP = np.zeros((sz, N))
                for i in c['ins']:
                    A = np.array(c['A'][o['name']][i['name']], dtype=float)
                    P, off = self.inmaps[i['name']]
                    AP += A @ P
                q = c.get('quad')
                if q and q['out'] == o['name']:
                    P, off = self.inmaps[q['in']]
                    x0 = P[0] @ y + off[0]
                    AP += np.outer(2 * np.array(q['coef']) * x0, P[0])
                if c['kind'] == 'imp2':
                    L[s:s + sz] = -AP
                    L[s:s + sz, s:s + sz] += np.array(c['D'][o['name']], dtype=float)
                    if o is c['outs'][1]:
                        s1, sz1 = self.off[c['outs'][0]['name']]
                        L[s:s + sz, s1:s1 + sz1] -= np.array(c['C'], dtype=float)
                elif c['kind'] == 'imp':
                    L[s:s + sz] = -AP
                    L[s:s + sz, s:s + sz] += np.array(c['D'], dtype=float)
                else:
                    L[s:s + sz] = AP
                    L[s:s + sz, s:s + sz] -= np.eye(sz)
        return L
