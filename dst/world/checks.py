"""worldsim checks: C01 C02 C04 C07 C08 C11 C12 C24 C31 C32.  One generator, one executor;
each check chooses knob biases, its op mix and which invariants it judges."""
import copy
import hashlib

import numpy as np

from dst.core.driver import Check
from dst.core.shrink import drop_from_list
from dst.core.util import Log, Counter, reset_process_state, canon
from . import spec
from . import build as B
from .sim import Sim, relerr
from .ref import Ref

EPSF = float(np.finfo(float).eps)

REAL = ['openmdao Problem/Group/Component/System', 'vectors, transfers, jacobians, matrices', 'all solvers',
        'total_jac / relevance / coloring', 'NumPy/SciPy']
STUBS = ['user components (affine/quadratic/implicit stubs logging every callback)', 'fault plan',
         'global RNG perturbation', 'user script (op history)']


def gen_faults(rng, world, n, kinds=('analysis_error', 'nan'), methods=None):
    comps = [c for c in world['comps'] if c['kind'] != 'ivc']
    out = []
    for _ in range(n):
        c = rng.choice(comps)
        if methods:
            m = rng.choice(methods)
        elif c['kind'] in ('imp', 'imp2'):
            m = rng.choice(['solve_nonlinear', 'apply_nonlinear', 'linearize'])
        else:
            m = rng.choice(['compute', 'compute', 'compute_partials'])
        kind = rng.choice(kinds)
        if m in ('linearize', 'compute_partials'):
            kind = 'analysis_error'
        out.append({'op': 'fault', 'comp': c['name'], 'method': m, 'n': rng.randint(1, 4), 'kind': kind})
    return out


def newtonish(world):
    return any(s['nl'] in ('newton', 'broyden') for s in world['solvers'].values())


def gen_set(rng, world, kinds=('indep',), with_units=False, with_idx=False):
    """A set_val op on an independent variable (IVC output or auto-IVC input)."""
    cands = []
    for c in world['comps']:
        if c['kind'] == 'ivc':
            cands += [(o, 'out') for o in c['outs']]
        for i in c['ins']:
            if i.get('via') == 'auto':
                cands.append((i, 'in'))
    v, io_ = rng.choice(cands)
    n = int(np.prod(v['shape']))
    op = {'op': 'set_val', 'var': v['name'], 'form': rng.choice(['prom', 'abs']),
          'vals': [spec.dyadic(rng, -4, 4, 2) for _ in range(n)]}
    if with_idx and rng.random() < 0.5:
        # set_val/get_val indices address the variable's own shape (NumPy semantics, never flat)
        forms = ['list', 'slice', 'int', 'negslice', 'neglist'] if len(v['shape']) == 1 else \
            ['tuple', 'ellipsis', 'nonflat_list', 'tuple']
        idx, _flat = spec.gen_index(rng, v['shape'], forms)
        if idx is not None:
            op['idx'], op['flat'] = idx, False
    if with_units and v['units'] is not None and rng.random() < 0.5:
        # the values are expressed in other units but stay moderate in the variable's own units (the
        # world was validated around values of that size)
        op['units'] = spec.compatible(v['units'], rng, allow_big=True)
        f, o = spec.conv(op['units'], v['units'])
        op['vals'] = [(x - o) / f for x in op['vals']]
    return op


class WorldCheck(Check):
    level = 'exploration'
    engine = 'worldsim'
    real = REAL
    stubs = STUBS
    knobs = {}
    invs = ()
    shrink_budget = 200

    def budget(self, tier):
        if tier == 'thorough':
            return {'runs': 60000, 'time': 900.0, 'run_cap': 600.0, 'selftest': 100}
        return {'runs': 2500, 'time': 55.0, 'run_cap': 300.0, 'selftest': 12}

    def world_knobs(self, rng):
        return dict(self.knobs)

    def gen(self, rng, tier):
        k = self.world_knobs(rng)
        world = spec.gen_world(rng, k)
        plan = {'world': world, 'knobs': self.run_knobs(rng, world), 'ops': []}
        plan['ops'] = self.gen_ops(rng, plan)
        return plan

    def run_knobs(self, rng, world):
        return {'mode': rng.choice(['auto', 'fwd', 'rev'])}

    def gen_ops(self, rng, plan):
        return [{'op': 'setup'}, {'op': 'run_model'}]

    def run(self, plan, keep=False):
        reset_process_state(plan.get('run_seed', 0))
        log = Log(keep)
        st, faults, probes = Counter(), Counter(), Counter()
        viol = []
        log.ev('plan', hashlib.sha1(canon({k: plan[k] for k in ('world', 'knobs', 'ops')}).encode()).hexdigest())
        self._cur_op = None
        try:
            self.execute(plan, log, st, faults, probes, viol)
        finally:
            import openmdao.utils.relevance as rel
            rel._no_relevance = False
        if self._cur_op is not None:
            for v_ in viol:
                v_.setdefault('op_index', self._cur_op)     # the op a history-dependent finding class looks back from
        kfail = False
        for k_ in [k_ for k_ in probes if k_.startswith('_kfail_')]:
            kfail = bool(probes.pop(k_)) or kfail
        if viol and kfail:
            # every execute() returns at the first violation, which belongs to the last op a Sim performed: a
            # ScipyKrylov solver said during that op that it did not converge (with the tight tolerances of the
            # worlds GMRES occasionally stalls at the round-off floor of a badly scaled system and says so), so
            # the result is outside the properties' precondition.  Not a violation; counted.
            del viol[:]
            probes.inc('violation_on_op_with_reported_krylov_nonconvergence_void')
        w = plan['world']
        shape = self.shape_of(plan, st)
        res = {'viol': viol, 'digest': log.digest(), 'stats': st, 'faults': faults, 'probes': probes,
               'shape': shape, 'nontrivial': self.nontrivial(plan, st, faults, probes), 'sim_time': 0.0}
        if keep:
            res['events'] = log.events
        return res

    def shape_of(self, plan, st):
        w = plan['world']
        s = w['solvers']
        return (f"n{len(w['comps'])}-g{len(w['groups'])}-cyc{int(w['cycle'] is not None)}-"
                f"{'/'.join(sorted(v['nl'] + ':' + v['ln'] for v in s.values()))}-{plan['knobs'].get('mode')}")

    def nontrivial(self, plan, st, faults, probes):
        return True

    def execute(self, plan, log, st, faults, probes, viol):
        raise NotImplementedError

    # ------------------------------------------------------------------ shrinking
    def candidates(self, plan):
        ops = plan['ops']
        # ops (keep the leading setup)
        for a, b in list(_chunks(len(ops) - 1)):
            c = copy.deepcopy(plan)
            c['ops'] = ops[:1] + ops[1:][:a] + ops[1:][b:]
            yield c
        w = plan['world']
        used_src = {i['src'] for c in w['comps'] for i in c['ins'] if i.get('src')}
        voi = {v['name'] for v in w['dvs'] + w['resps']}
        # drop a component nobody depends on
        for ci in range(len(w['comps']) - 1, 0, -1):
            c = w['comps'][ci]
            names = {o['name'] for o in c['outs']} | {i['name'] for i in c['ins']}
            if any(o['name'] in used_src for o in c['outs']):
                continue
            if w['cycle'] and c['name'] in (w['cycle']['early'], w['cycle']['late']):
                continue
            cand = copy.deepcopy(plan)
            cw = cand['world']
            del cw['comps'][ci]
            cw['dvs'] = [d for d in cw['dvs'] if d['name'] not in names]
            cw['resps'] = [r for r in cw['resps'] if r['name'] not in names]
            if not cw['dvs'] or not cw['resps']:
                continue
            for g in cw['order']:
                cw['order'][g] = [x for x in cw['order'][g] if x != c['name']]
            _prune_groups(cw)
            cand['ops'] = [o for o in cand['ops'] if o.get('var') not in names and o.get('comp') != c['name']]
            _fix_voi_ops(cand)
            yield cand
        # drop VOIs
        for key in ('dvs', 'resps'):
            if len(w[key]) > 1:
                for i in range(len(w[key])):
                    cand = copy.deepcopy(plan)
                    del cand['world'][key][i]
                    _fix_voi_ops(cand)
                    yield cand
        # simplify attributes
        for ci, c in enumerate(w['comps']):
            for oi, o in enumerate(c['outs']):
                if any(k in o for k in ('ref', 'ref0', 'res_ref')):
                    cand = copy.deepcopy(plan)
                    for k in ('ref', 'ref0', 'res_ref'):
                        cand['world']['comps'][ci]['outs'][oi].pop(k, None)
                    yield cand
            for k, f in c.get('fmt', {}).items():
                if f not in ('dense', 'dense_cp'):
                    cand = copy.deepcopy(plan)
                    cand['world']['comps'][ci]['fmt'][k] = 'dense_cp' if f.endswith('_cp') else 'dense'
                    yield cand
            if c.get('quad'):
                cand = copy.deepcopy(plan)
                cand['world']['comps'][ci].pop('quad')
                yield cand
            if c.get('mf'):
                cand = copy.deepcopy(plan)
                cand['world']['comps'][ci]['mf'] = False
                yield cand
            if c.get('approx'):
                cand = copy.deepcopy(plan)
                cand['world']['comps'][ci].pop('approx')
                yield cand
            if c['prom']:
                cand = copy.deepcopy(plan)
                cand['world']['comps'][ci]['prom'] = False
                yield cand
            for ii, i in enumerate(c['ins']):
                if i.get('src') and i['units'] != self._src_units(w, i['src']):
                    cand = copy.deepcopy(plan)
                    cand['world']['comps'][ci]['ins'][ii]['units'] = self._src_units(w, i['src'])
                    yield cand
                if i.get('via') == 'promote':
                    cand = copy.deepcopy(plan)
                    cand['world']['comps'][ci]['ins'][ii]['via'] = 'connect'
                    yield cand
        for key in ('dvs', 'resps'):
            for i, v in enumerate(w[key]):
                # ref and ref0 go together: a lone ref0 means ref = 1, a different scaling (and ref0 = 1
                # alone is a zero-width scaling OpenMDAO cannot represent), not a simpler one
                for ks in (('indices',), ('scaler',), ('adder',), ('ref', 'ref0'), ('units',)):
                    if any(k in v for k in ks):
                        cand = copy.deepcopy(plan)
                        for k in ks:
                            cand['world'][key][i].pop(k, None)
                        yield cand
        for g, s in w['solvers'].items():
            if s['ln'] != 'direct':
                cand = copy.deepcopy(plan)
                cand['world']['solvers'][g]['ln'] = 'direct'
                yield cand
            if s.get('rhs_checking'):
                cand = copy.deepcopy(plan)
                cand['world']['solvers'][g]['rhs_checking'] = False
                yield cand
        for k, dflt in (('mode', 'auto'), ('complex', False), ('approx_totals', None), ('total_coloring', None)):
            if plan['knobs'].get(k, dflt) != dflt:
                cand = copy.deepcopy(plan)
                cand['knobs'][k] = dflt
                yield cand

    @staticmethod
    def _src_units(w, src):
        for c in w['comps']:
            for o in c['outs']:
                if o['name'] == src:
                    return o['units']

    def signature(self, plan, viol):
        return viol['inv'] + (':' + viol['ctx'] if viol.get('ctx') else '')


def _chunks(n):
    from dst.core.shrink import list_chunks
    return list_chunks(n)


def _prune_groups(w):
    """Remove groups that no longer own any component."""
    changed = True
    while changed:
        changed = False
        for g in list(w['groups']):
            if g == '':
                continue
            if not any(c['group'] == g or c['group'].startswith(g + '.') for c in w['comps']):
                del w['groups'][g]
                w['order'].pop(g, None)
                w['solvers'].pop(g, None)
                for o in w['order'].values():
                    if g in o:
                        o.remove(g)
                changed = True


def _fix_voi_ops(plan):
    nr, nd = len(plan['world']['resps']), len(plan['world']['dvs'])
    for o in plan['ops']:
        if 'of' in o:
            o['of'] = sorted({min(i, nr - 1) for i in o['of']})
        if 'wrt' in o:
            o['wrt'] = sorted({min(i, nd - 1) for i in o['wrt']})


# =========================================================================== C32
class C32(WorldCheck):
    pid = 'C32'
    knobs = dict(shuffle=True, groups=0.6, ncomp=(3, 7), auto_ivc=0.2)
    rule = ("plans = generated models whose subsystems are added in a seeded shuffled order with auto_order on "
            "(30% with a feedback cycle), run once; distinct = distinct event-log digests; non-trivial = the "
            "shuffled insertion order of at least one group differs from its dependency order")
    assumptions = ["data predecessors are taken from the plan's connection list (an independent graph)",
                   "residual check after run_model uses run_apply_nonlinear with the stubs' own formulas",
                   "faults are not injected in this check: the schedule dimension is the arrival order"]

    def world_knobs(self, rng):
        k = dict(self.knobs)
        k['cycle'] = rng.choice([0.0, 0.0, 1.0])
        k['scaling'] = rng.choice([0.0, 0.3])
        k['imp'] = rng.choice([0.0, 0.2])
        return k

    def gen_ops(self, rng, plan):
        ops = [{'op': 'setup'}, {'op': 'run_model'}, gen_set(rng, plan['world']), {'op': 'run_model'}]
        # the order a group settled on must be found again by every later setup of the same Problem
        for _ in range(rng.choice([0, 0, 1, 2])):
            ops += [{'op': 'setup', 'same': rng.random() < 0.7}, {'op': 'run_model'}]
            if rng.random() < 0.5:
                ops += [gen_set(rng, plan['world']), {'op': 'run_model'}]
        return ops

    def nontrivial(self, plan, st, faults, probes):
        return probes.get('order_differs_from_insertion', 0) > 0

    def execute(self, plan, log, st, faults, probes, viol):
        import networkx as nx
        sim = Sim(plan, log, {'I-32'}, st=st, probes=probes)
        w = sim.world
        # child-level dependency graphs per group, from the plan only
        own = B.owner_of(w)
        for op in plan['ops']:
            res, raised, fired = sim.do(op)
            if sim.viol:
                viol.extend(sim.viol)
                return
            if op['op'] != 'run_model' or raised is not None:
                continue
            trace = [c for c, m in sim.rt.trace if m in ('compute', 'solve_nonlinear', 'apply_nonlinear')]
            log.ev('trace', trace)
            first = {}
            last = {}
            for k, c in enumerate(trace):
                first.setdefault(c, k)
                last[c] = k
            G = nx.DiGraph()
            stubs = [c['name'] for c in w['comps'] if c['kind'] != 'ivc']
            G.add_nodes_from(stubs)
            for c in w['comps']:
                for i in c['ins']:
                    if i.get('src'):
                        sc = own[i['src']][0]
                        if sc['kind'] != 'ivc':
                            G.add_edge(sc['name'], c['name'])
            scc = {n: k for k, comp in enumerate(nx.strongly_connected_components(G)) for n in comp}
            for c in stubs:
                if c not in first:
                    viol.append({'inv': 'I-32-executed', 'msg': f"component {c} was never executed by run_model"})
                    return
            acyclic_model = w['cycle'] is None
            for u, v in G.edges():
                # component-level clause only for acyclic models; with a cycle, groups are atomic members
                # of the cycle and the clause is judged per group on its children (below)
                if acyclic_model and scc[u] != scc[v] and not first[u] < first[v]:
                    viol.append({'inv': 'I-32-order', 'msg': f"{v} executed (first at {first[v]}) before its data "
                                 f"predecessor {u} (first at {first[u]}); insertion order {w['order']}; "
                                 f"trace {trace}"})
                    return
            # members of a cycle keep their declared relative order (checked among children of each group)
            for g, order in w['order'].items():
                ch_graph = nx.DiGraph()
                ch_graph.add_nodes_from(order)

                def child_of(cname):
                    c = B.comp_by_name(w)[cname]
                    if c['group'] == g:
                        return c['name']
                    if g == '' or c['group'].startswith(g + '.'):
                        rest = c['group'] if g == '' else c['group'][len(g) + 1:]
                        top = rest.split('.')[0]
                        return top if g == '' else g + '.' + top
                    return None
                for c in w['comps']:
                    for i in c['ins']:
                        if i.get('src'):
                            a, b_ = child_of(own[i['src']][0]['name']), child_of(c['name'])
                            if a and b_ and a != b_:
                                ch_graph.add_edge(a, b_)
                got = [(g + '.' if g else '') + s if False else s for s in sim.groups[g]._subsystems_allprocs
                       if s != '_auto_ivc']
                got = [((g + '.' + s) if (g and (g + '.' + s) in w['groups']) else s) for s in got]
                pos = {n: k for k, n in enumerate(got)}
                if sorted(got) != sorted(order):
                    viol.append({'inv': 'I-32-harness', 'msg': f"children of '{g}' {got} vs plan {order}"})
                    return
                if got != order:
                    probes.inc('order_differs_from_insertion')
                # the execution trace follows the order the framework settled on
                seen = []
                for cname in trace:
                    ch = child_of(cname)
                    if ch and ch not in seen:
                        seen.append(ch)
                if seen != [n for n in got if n in seen]:
                    viol.append({'inv': 'I-32-order', 'msg': f"group '{g}': children executed in order {seen}, "
                                 f"but the group's order after setup is {got}"})
                    return
                for comp in nx.strongly_connected_components(ch_graph):
                    if len(comp) > 1:
                        probes.inc('cyclic_scc')
                        ins = [n for n in order if n in comp]
                        now = [n for n in got if n in comp]
                        if ins != now:
                            viol.append({'inv': 'I-32-scc-order', 'msg': f"group '{g}': members of a cycle were "
                                         f"reordered: declared {ins}, after setup {now}"})
                            return
                cidx = {n: k for k, comp in enumerate(nx.strongly_connected_components(ch_graph)) for n in comp}
                for u, v in ch_graph.edges():
                    if cidx[u] != cidx[v] and not pos[u] < pos[v]:
                        viol.append({'inv': 'I-32-order', 'msg': f"group '{g}': {v} ordered before its predecessor "
                                     f"{u}: {got} (declared {order})"})
                        return
            # residuals are zero after one pass (acyclic worlds) / after convergence
            sim.rt.enabled = False
            sim.p.model.run_apply_nonlinear()
            sim.rt.enabled = True
            r = sim.p.model._residuals.asarray()
            y = sim.p.model._outputs.asarray()
            scaled = any(any(k in o for k in ('ref', 'ref0', 'res_ref')) for c in w['comps'] for o in c['outs'])
            # unit conversions and solver scaling are applied as vector scale/unscale round trips, so a
            # re-evaluation reproduces the outputs to round-off, not bitwise
            bound = 1e-12 * (1 + np.abs(y).max())
            if w['cycle']:
                bound = 1e-8 * (1 + np.abs(y).max())
            if not np.all(np.abs(r) <= bound):
                viol.append({'inv': 'I-32-residual', 'msg': f"residuals after run_model are not zero: max "
                             f"{np.abs(r).max()!r} (bound {bound!r}); insertion order {w['order']}"})
                return
            st.inc('order_checks')
            if not sim.check_values(inv_out='I-32-values', inv_in=None):
                viol.extend(sim.viol)
                return


# =========================================================================== C04
class C04(WorldCheck):
    pid = 'C04'
    rule = ("plans = generated hierarchies with explicit connections (src_indices forms), promotions, auto-IVC "
            "inputs, units incl. offset units, cycles under iterative solvers, op histories of "
            "set_val/run_model with AnalysisError/NaN component faults; every stub evaluation compares the "
            "inputs it is handed with the reference index/unit map applied to the live source values; "
            "distinct = event-log digests; non-trivial = at least one input with src_indices or a unit "
            "conversion was checked at an evaluation event")
    assumptions = ["per-evaluation comparison only in worlds without solver scaling (root vectors hold physical values)",
                   "Jacobi sweeps are compared with the source values at the sweep's transfer",
                   "index forms exercised: full, flat int list (incl. negative), flat slice (incl. negative step), int, "
                   "tuple, ellipsis, non-flat int list into multi-dimensional sources"]
    knobs = dict(forms=spec.FORMS_ALL, temps=True, groups=0.6, promote=0.5, auto_ivc=0.3, discrete=0.35)

    def world_knobs(self, rng):
        k = dict(self.knobs)
        k['cycle'] = rng.choice([0.0, 0.5, 1.0])
        k['imp'] = rng.choice([0.0, 0.3])
        k['quad'] = rng.choice([0.0, 0.3])
        k['scaling'] = rng.choice([0.0, 0.0, 0.3])
        return k

    def gen_ops(self, rng, plan):
        w = plan['world']
        ops = [{'op': 'setup'}]
        nf = 0
        for _ in range(rng.randint(1, 4)):
            if rng.random() < 0.6:
                ops.append(gen_set(rng, w, with_units=True, with_idx=True))
            if rng.random() < 0.3 and any(c.get('discrete_out') for c in w['comps'] if c['kind'] == 'ivc'):
                v0 = next(c['discrete_out'][0]['val'] for c in w['comps'] if c['kind'] == 'ivc')
                ops.append({'op': 'set_discrete', 'val': {int: rng.choice([7, -2]), str: rng.choice(['xyz', '']),
                                                          list: rng.choice([[4, 5, 6], []])}[type(v0)]})
            if rng.random() < 0.3 and nf < 3:
                kinds = ('analysis_error', 'nan')
                ops += gen_faults(rng, w, 1, kinds=kinds, methods=None if rng.random() < 0.5 else ['compute'])
                nf += 1
            ops.append({'op': 'run_model'})
        if nf:
            ops.append({'op': 'run_model'})      # bounded recovery: one fault-free run at the end
        return ops

    def nontrivial(self, plan, st, faults, probes):
        return probes.get('live_checks_indexed_or_converted', 0) > 0

    def execute(self, plan, log, st, faults, probes, viol):
        sim = Sim(plan, log, {'I-04'}, st=st, probes=probes)
        w = sim.world
        scaled = any(any(k in o for k in ('ref', 'ref0', 'res_ref')) for c in w['comps'] for o in c['outs'])
        own = sim.own
        jacobi = {g for g, s in w['solvers'].items() if s['nl'] == 'nlbj'}
        state = {'bad': None}

        def on_eval(cname, method, inputs):
            if scaled or state['bad'] or not sim.rt.enabled:
                return
            c = B.comp_by_name(w)[cname]
            if any(c['group'] == g or c['group'].startswith(g + '.') or g == '' for g in jacobi):
                probes.inc('jacobi_eval_skipped')
                return
            root_out = sim.p.model._outputs
            for i in c['ins']:
                got = np.array(inputs[i['name']]).ravel()
                if np.iscomplexobj(got):
                    return
                if i.get('via') == 'auto':
                    continue
                src_abs = sim.absn(i['src'])
                src_val = np.array(root_out._abs_get_val(src_abs, flat=True))
                sel, shape = spec.apply_index(own[i['src']][2]['shape'], i['idx'], i['flat'])
                f, o = spec.conv(own[i['src']][2]['units'], i['units'])
                want = src_val[sel] * f + o
                st.inc('live_input_checks')
                if i['idx'] is not None or f != 1.0 or o != 0.0:
                    probes.inc('live_checks_indexed_or_converted')
                if not (np.all(np.isfinite(want)) and np.all(np.isfinite(got))):
                    continue
                # explicit components' apply_nonlinear restores outputs as new - (new - old): the live source
                # can differ from the transferred value by round-off of the *recomputed* magnitude
                if relerr(got, want, floor=1.0 + float(np.abs(src_val).max())) > 1e-9:
                    state['bad'] = (f"at evaluation #{sim.rt.counts.get((cname, method))} of {cname}.{method}: input "
                                    f"{i['name']} = {got.tolist()} but source {i['src']}{i['idx']} (flat={i['flat']}) "
                                    f"converted {own[i['src']][2]['units']}->{i['units']} is {want.tolist()}")
                    return
        sim.rt.on_eval = on_eval
        last_fault_idx = max([k for k, o in enumerate(plan['ops']) if o['op'] == 'fault'], default=-1)
        for k, op in enumerate(plan['ops']):
            res, raised, fired = sim.do(op)
            for f in sim.rt.fired[len(sim.rt.fired) - fired:]:
                faults.inc(f['kind'] + ':' + f['method'])
            if state['bad']:
                viol.append({'inv': 'I-04-live', 'msg': state['bad']})
                return
            if sim.void:
                return
            if sim.viol:
                viol.extend(sim.viol)
                return
            if op['op'] == 'run_model':
                if raised is None and sim.clean:
                    if not sim.check_values(inv_out='I-04-outputs', inv_in='I-04-inputs'):
                        viol.extend(sim.viol)
                        return
                    # every discrete input holds the object its source output holds now (the stubs pass their
                    # discrete input on; a solver that finds the continuous state converged need not re-run them)
                    downer = {d['name']: c for c in w['comps'] for d in c.get('discrete_out', [])}

                    def sysof(c):
                        if c['kind'] == 'ivc':
                            return sim.p.model._get_subsystem('ivc')
                        return sim.p.model._get_subsystem(sim.absn(c['outs'][0]['name']).rsplit('.', 1)[0])
                    for c in w['comps']:
                        for d in c.get('discrete_in', []):
                            sc = downer[d['src']]
                            if sc['kind'] != 'ivc' and any(s_['nl'] == 'nlbj' or (s_['nl'] == 'nlbgs' and s_.get('use_apply'))
                                                           for s_ in w['solvers'].values()):
                                # a Jacobi sweep -- and the residual evaluation of a Gauss-Seidel solver with
                                # use_apply_nonlinear, which may be all it does on a converged state -- hands a
                                # component what its source held at the one transfer at the start, and the
                                # components' compute then moves their discrete outputs on
                                probes.inc('discrete_chain_link_under_full_transfer_not_judged')
                                continue
                            got = sysof(c)._discrete_inputs[d['name']]
                            cur = sysof(sc)._discrete_outputs[d['src']]
                            probes.inc('discrete_inputs_checked')
                            if got is not cur and got != cur:
                                viol.append({'inv': 'I-04-discrete', 'msg': f"discrete input {c['name']}.{d['name']} holds "
                                             f"{got!r} after run_model but its source {sc['name']}.{d['src']} holds {cur!r}"})
                                return
                    if k > last_fault_idx >= 0:
                        probes.inc('recovered_after_fault')
                elif k > last_fault_idx + 1 and last_fault_idx >= 0 and raised is not None:
                    viol.append({'inv': 'I-recovery', 'msg': f"run_model after the last fault still raises: {raised}"})
                    return


CHECKS = {'C32': C32(), 'C04': C04()}


# =========================================================================== shared history pieces
ALL_KNOBS = dict(forms=spec.FORMS_ALL, fmts=spec.FMT_ALL, temps=True, groups=0.6, promote=0.5, auto_ivc=0.3)


def gen_totals_op(rng, world):
    nr, nd = len(world['resps']), len(world['dvs'])
    op = {'op': 'totals', 'of': sorted(rng.sample(range(nr), rng.randint(1, nr))),
          'wrt': sorted(rng.sample(range(nd), rng.randint(1, nd))),
          'fmt': rng.choice(['flat_dict', 'flat_dict', 'dict', 'array']),
          'driver_scaling': rng.random() < 0.3}
    if len(op['of']) == nr and len(op['wrt']) == nd and rng.random() < 0.3:
        op['explicit'] = False         # let the framework use the declared design vars / responses
        op['driver_scaling'] = rng.random() < 0.5
    return op


def judge_totals(sim, op, res, inv):
    if res is None:
        return True
    if not sim.clean:
        sim.probes.inc('totals_on_stale_state_not_judged')
        return True
    return sim.check_totals(res, op, inv=inv)


def standard_history(rng, world, nsteps=(3, 8), fault_p=0.25, set_p=0.5, extra=None, fault_methods=None):
    ops = [{'op': 'setup'}, {'op': 'run_model'}]
    nf = 0
    for _ in range(rng.randint(*nsteps)):
        r = rng.random()
        if r < set_p * 0.5:
            ops.append(gen_set(rng, world, with_units=rng.random() < 0.3, with_idx=rng.random() < 0.3))
            ops.append({'op': 'run_model'})
        elif r < set_p * 0.5 + fault_p and nf < 3:
            ops += gen_faults(rng, world, 1, methods=fault_methods)
            ops.append(rng.choice([{'op': 'run_model'}, gen_totals_op(rng, world)]))
            if ops[-1]['op'] == 'totals' and ops[-2]['method'] in ('compute', 'solve_nonlinear', 'apply_nonlinear'):
                ops[-1] = {'op': 'run_model'}
            ops.append({'op': 'run_model'})
            nf += 1
        elif extra is not None and r < 0.75:
            e = extra(rng, world)
            ops.extend(e if isinstance(e, list) else [e])
        else:
            ops.append(gen_totals_op(rng, world))
    ops.append(gen_totals_op(rng, world))
    return ops


class HistoryCheck(WorldCheck):
    """Run one Sim (plus optional twins) through the plan's history."""
    twins = ()
    inv_totals = 'I-01-totals'
    judge_values = True

    def after_op(self, sims, op, outs, viol, ctx, log):
        return True

    def execute(self, plan, log, st, faults, probes, viol):
        sims = [Sim(plan, log, set(), st=st, probes=probes)]
        for t in self.twins_for(plan):
            sims.append(Sim(plan, log, set(), name='t', variant=t, st=Counter(), probes=probes))
        ctx = {}
        last_fault_idx = max([k for k, o in enumerate(plan['ops']) if o['op'] == 'fault'], default=-1)
        for k, op in enumerate(plan['ops']):
            self._cur_op = k
            outs = []
            for sim in sims:
                res, raised, fired = sim.do(op)
                outs.append((res, raised, fired))
                if sim is sims[0]:
                    for f in sim.rt.fired[len(sim.rt.fired) - fired:]:
                        faults.inc(f['kind'] + ':' + f['method'])
                if sim.viol:
                    viol.extend(sim.viol)
                    return
                if sim.void:
                    return
            sim = sims[0]
            res, raised, fired = outs[0]
            if op['op'] == 'run_model':
                if raised is None and sim.clean:
                    if self.judge_values and not sim.check_values(inv_out=self.pid_inv('outputs'),
                                                                 inv_in=self.pid_inv('inputs')):
                        viol.extend(sim.viol)
                        return
                    if k > last_fault_idx >= 0:
                        probes.inc('recovered_after_fault')
                elif raised is not None and last_fault_idx >= 0 and k > last_fault_idx + 1 and fired == 0:
                    viol.append({'inv': 'I-recovery', 'msg': f"run_model after the last fault still raises: {raised}"})
                    return
            if op['op'] == 'totals' and raised is None:
                if not judge_totals(sim, op, res, self.inv_totals):
                    viol.extend(sim.viol)
                    return
                if sim.clean and fired == 0:
                    log.ev('totals', {f"{a}|{b}": v for (a, b), v in sorted(res.items())})
            if not self.after_op(sims, op, outs, viol, ctx, log):
                return

    def twins_for(self, plan):
        return self.twins

    def pid_inv(self, what):
        return f"I-{self.pid[1:]}-{what}"


# =========================================================================== C01
class C01(HistoryCheck):
    pid = 'C01'
    inv_totals = 'I-01-totals'
    rule = ("plans = generated worlds (DAGs and cycles of explicit/implicit/quadratic/matrix-free stubs, nested "
            "groups, promotions, all src_indices forms, unit conversions, desvar/response indices and scalings, "
            "solver scaling) x solver stacks x mode x return format x histories of "
            "totals/set_val/run_model/re-linearisation with AnalysisError/NaN component faults; every "
            "compute_totals on a converged state is compared with the reference model's exact totals; "
            "distinct = event-log digests; non-trivial = at least one totals call was judged after a "
            "set_val+run_model or after a fault")
    assumptions = ["reference totals from an independent float64 model of the plan (well-conditioned by construction)",
                   "tolerances: 1e-7 relative for direct stacks, 1e-5 for iterative, 1e-4 for Krylov",
                   "totals requested while the state is stale (set_val without run_model) are executed but not judged",
                   "linear block solvers' own convergence report is not trusted (relevance pruning inflates their norm); "
                   "their result is judged instead"]

    def world_knobs(self, rng):
        k = dict(ALL_KNOBS)
        k.update(cycle=rng.choice([0.0, 0.5, 1.0]), imp=rng.choice([0.0, 0.3]), quad=rng.choice([0.0, 0.4]),
                 scaling=rng.choice([0.0, 0.0, 0.4]), neg_scaling=True, res_ref=True,
                 mf=rng.choice([0.0, 0.0, 0.2]), nl=['nlbgs', 'newton', 'nlbj', 'broyden'], voi_units=0.3,
                 sparse_decl=0.3, two_outs=0.4, imp2=0.4)
        return k

    def run_knobs(self, rng, world):
        kn = {'mode': rng.choice(['auto', 'fwd', 'rev']), 'complex': rng.random() < 0.2}
        # The sparsity behind a dynamic total colouring is taken from totals computed with *randomised* partials
        # (values in [1, 2)); a LinearBlockGS/Jac that contracts for the model's own partials need not do so
        # for those, and its diverged (finite, huge) entries push every other entry below the tolerance
        # sweep -- a colouring that misses nonzeros, hence wrong totals.  That is a limit of the method a user
        # meets as "my linear solver must be able to solve the randomised system", not a stale-state effect,
        # so the colouring knob is drawn only for direct/Krylov stacks (see DESIGN 7.2).
        block_ln = any(s_['ln'].split('_')[0] in ('lnbgs', 'lnbj') for s_ in world['solvers'].values())
        if rng.random() < 0.25 and not block_ln:
            kn['total_coloring'] = True
            kn['coloring_min_improve'] = rng.choice([5.0, 0.0, -100.0])
        return kn

    def gen_ops(self, rng, plan):
        ops = standard_history(rng, plan['world'])
        if rng.random() < 0.15:
            k = rng.randint(2, len(ops))
            ops[k:k] = [{'op': 'setup', 'same': rng.random() < 0.5}, {'op': 'run_model'}]
        if plan['knobs'].get('total_coloring'):
            # the colouring is only used for the driver's own of/wrt: ask for those in most totals ops
            w = plan['world']
            for o in ops:
                if o['op'] == 'totals' and rng.random() < 0.7:
                    o.update(of=list(range(len(w['resps']))), wrt=list(range(len(w['dvs']))), explicit=False)
        return ops

    def nontrivial(self, plan, st, faults, probes):
        return st.get('totals_checked', 0) > 0 and (st.get('op_set_val', 0) > 0 or sum(faults.values()) > 0)


# =========================================================================== C08
class C08(HistoryCheck):
    pid = 'C08'
    inv_totals = 'I-08-totals'
    twins = ('unscaled',)
    rule = ("plans = C01-style worlds in which about half of the outputs carry ref/ref0/res_ref (positive, negative, "
            "scalar and array) x solver stacks x histories with faults placed inside scaled contexts; the same "
            "history is executed by an unscaled twin (all ref/ref0/res_ref removed); physical outputs, inputs and "
            "totals must agree between twins and with the reference; distinct = event-log digests; non-trivial = "
            "at least one scaled output took part in a judged comparison")
    assumptions = C01.assumptions + ["twin comparison tolerance = solver tolerance of the world (1e-7 .. 1e-4 relative)"]

    def world_knobs(self, rng):
        k = dict(ALL_KNOBS)
        k.update(cycle=rng.choice([0.0, 0.5, 1.0]), imp=rng.choice([0.0, 0.3]), quad=rng.choice([0.0, 0.4]),
                 scaling=0.6, neg_scaling=True, res_ref=True, mf=rng.choice([0.0, 0.0, 0.2]),
                 nl=['nlbgs', 'newton', 'nlbj', 'broyden'], voi_units=0.2, imp2=0.4)
        return k

    def run_knobs(self, rng, world):
        return {'mode': rng.choice(['auto', 'fwd', 'rev'])}

    def gen_ops(self, rng, plan):
        ops = standard_history(rng, plan['world'], nsteps=(2, 6), fault_p=0.35)
        if rng.random() < 0.3:
            # the scaling of some outputs is changed and the same Problem set up again: nothing computed under
            # the old scaling may survive in a solver or vector
            w = plan['world']
            outs = [(o, int(np.prod(o['shape']))) for c in w['comps'] if c['kind'] != 'ivc' for o in c['outs']]
            scales = {}
            for o, n in rng.sample(outs, rng.randint(1, len(outs))):
                o2 = {}
                if rng.random() < 0.8:
                    spec._scale(rng, o2, n, dict(neg_scaling=True, res_ref=True))
                scales[o['name']] = o2
            k = rng.randint(2, len(ops))
            ops[k:k] = [{'op': 'rescale', 'scales': scales}, {'op': 'setup', 'same': True}, {'op': 'run_model'},
                        gen_totals_op(rng, w)]
        return ops

    def nontrivial(self, plan, st, faults, probes):
        return probes.get('scaled_twin_comparisons', 0) > 0

    def after_op(self, sims, op, outs, viol, ctx, log):
        a, b = sims[0], sims[1]
        (ra, ea, fa), (rb, eb, fb) = outs
        scaled = any(any(k in o for k in ('ref', 'ref0', 'res_ref')) for c in a.world['comps'] for o in c['outs'])
        if op['op'] == 'run_model' and ea is None and eb is None and a.clean and b.clean:
            ya = a.p.model._outputs.asarray()
            for c in a.world['comps']:
                for o in c['outs']:
                    ga = a.p.get_val(a.absn(o['name'])).ravel()
                    gb = b.p.get_val(b.absn(o['name'])).ravel()
                    if relerr(ga, gb) > a.tol:
                        viol.append({'inv': 'I-08-twin-outputs', 'msg': f"output {o['name']}: scaled model "
                                     f"{ga.tolist()} vs unscaled twin {gb.tolist()}"})
                        return False
                for i in c['ins']:
                    ga = a.p.get_val(a.absn(i['name']), from_src=False).ravel()
                    gb = b.p.get_val(b.absn(i['name']), from_src=False).ravel()
                    if relerr(ga, gb) > a.tol:
                        viol.append({'inv': 'I-08-twin-inputs', 'msg': f"input {i['name']}: scaled model "
                                     f"{ga.tolist()} vs unscaled twin {gb.tolist()}"})
                        return False
            if scaled:
                a.probes.inc('scaled_twin_comparisons')
        if op['op'] == 'totals' and ra is not None and rb is not None and a.clean and b.clean:
            for key in ra:
                if relerr(ra[key], rb[key], floor=1e-3 + float(np.abs(rb[key]).max())) > a.tol * 10:
                    viol.append({'inv': 'I-08-twin-totals', 'msg': f"totals {key}: scaled model "
                                 f"{ra[key].tolist()} vs unscaled twin {rb[key].tolist()} (mode {a.knobs.get('mode')})"})
                    return False
        return True


# =========================================================================== C24
class C24(HistoryCheck):
    pid = 'C24'
    inv_totals = 'I-24-totals'
    twins = ('norel',)
    rule = ("plans = worlds with several design variables / responses and irrelevant branches x histories that "
            "request differing of/wrt subsets (relevance cache, seed switching) with component faults; the same "
            "history runs in a twin built with relevance disabled; responses and totals must agree between twins "
            "and with the reference; distinct = event-log digests; non-trivial = at least two totals calls with "
            "different of/wrt subsets were judged")
    assumptions = C01.assumptions + ["relevance is disabled in the twin through openmdao.utils.relevance._no_relevance "
                                     "(the module-level switch the framework reads when a Problem is set up)"]

    def world_knobs(self, rng):
        k = dict(ALL_KNOBS)
        k.update(ncomp=(4, 8), auto_ivc=0.45, cycle=rng.choice([0.0, 0.5, 1.0]), imp=rng.choice([0.0, 0.3]),
                 quad=rng.choice([0.0, 0.3]), scaling=rng.choice([0.0, 0.3]), res_ref=True,
                 root_ln=['direct', 'direct_csc', 'runonce', 'lnbgs', 'lnbgs', 'lnbj', 'krylov'],
                 ln=['direct', 'direct_csc', 'lnbgs', 'lnbgs', 'lnbj', 'krylov'], voi_units=0.2, sparse_decl=0.4,
                 two_outs=0.4, imp2=0.5)
        return k

    def run_knobs(self, rng, world):
        return {'mode': rng.choice(['auto', 'fwd', 'rev', 'rev'])}

    def gen_ops(self, rng, plan):
        return standard_history(rng, plan['world'], nsteps=(4, 9), fault_p=0.2, set_p=0.3)

    def nontrivial(self, plan, st, faults, probes):
        return probes.get('subset_switches', 0) > 0

    def after_op(self, sims, op, outs, viol, ctx, log):
        a, b = sims[0], sims[1]
        (ra, ea, fa), (rb, eb, fb) = outs
        if (ea is None) != (eb is None) and fa == 0 and fb == 0:
            viol.append({'inv': 'I-24-twin-raise', 'msg': f"op {op['op']}: relevance-on raised {ea!r}, "
                         f"relevance-off raised {eb!r}"})
            return False
        if op['op'] == 'run_model' and ea is None and eb is None and a.clean and b.clean:
            ya, yb = a.outputs_vec(), b.outputs_vec()
            if relerr(ya, yb) > a.tol:
                viol.append({'inv': 'I-24-twin-outputs', 'msg': "outputs differ between relevance on/off"})
                return False
        if op['op'] == 'totals' and ra is not None and rb is not None and a.clean and b.clean:
            key = (tuple(op['of']), tuple(op['wrt']))
            if ctx.get('last_subset') not in (None, key):
                a.probes.inc('subset_switches')
            ctx['last_subset'] = key
            for k2 in ra:
                if relerr(ra[k2], rb[k2], floor=1e-3 + float(np.abs(rb[k2]).max())) > a.tol * 10:
                    viol.append({'inv': 'I-24-twin-totals', 'msg': f"totals {k2}: relevance on {ra[k2].tolist()} "
                                 f"vs off {rb[k2].tolist()}"})
                    return False
        return True


CHECKS.update({'C01': C01(), 'C08': C08(), 'C24': C24()})


# =========================================================================== C07
def gen_roundtrip(rng, world, invalid=False):
    cands = []
    for c in world['comps']:
        for o in c['outs']:
            cands.append((o, 'ivc' if c['kind'] == 'ivc' else 'out'))
        for i in c['ins']:
            if i.get('via') == 'auto':
                cands.append((i, 'auto'))
    v, kind = rng.choice(cands)
    n = int(np.prod(v['shape']))
    op = {'op': 'roundtrip', 'var': v['name'], 'form': rng.choice(['prom', 'abs']), 'kind': kind,
          'vals': [spec.dyadic(rng, -4, 4, 4) for _ in range(n)]}
    if rng.random() < 0.6:
        forms = ['list', 'slice', 'int', 'negslice', 'neglist'] if len(v['shape']) == 1 else \
            ['tuple', 'ellipsis', 'nonflat_list', 'tuple', 'int']
        idx, _ = spec.gen_index(rng, v['shape'], forms)
        if idx is not None:
            if idx['k'] == 'int' and len(v['shape']) > 1:
                idx = {'k': 'int', 'v': rng.randint(-v['shape'][0], v['shape'][0] - 1)}
            sel, _shape = spec.apply_index(v['shape'], idx, False)
            if len(set(sel)) == len(sel):      # a position written twice has no defined round trip
                op['idx'] = idx
    if v['units'] is not None and rng.random() < 0.5:
        op['units'] = spec.compatible(v['units'], rng, allow_big=True)
        f, o = spec.conv(op['units'], v['units'])
        op['vals'] = [(x - o) / f for x in op['vals']]      # moderate in the variable's own units
    if invalid:
        op['invalid'] = rng.choice(['units', 'shape', 'index'])
        if op['invalid'] == 'units':
            op['units'] = 'kg' if v['units'] is not None else 'm'
            if v['units'] is None:
                op['invalid'] = 'shape'
        if op['invalid'] == 'index':
            op['idx'] = {'k': 'int', 'v': v['shape'][0] + 3}
    return op


class C07(WorldCheck):
    pid = 'C07'
    rule = ("plans = generated models x addressable names (absolute / promoted; IVC outputs, component outputs, "
            "auto-IVC-backed inputs) x index forms x compatible unit strings x one logical set/get sequence issued "
            "in three phase placements (before final_setup, after final_setup, after run_model), with component "
            "faults in the runs between and invalid-argument calls after final_setup; reference store keyed by "
            "variable; distinct = event-log digests; non-trivial = at least one round trip used indices or units")
    assumptions = ["connected (non auto-IVC) inputs are not used as set_val targets (setting them writes through to the "
                   "source by design)",
                   "unit round trips compared to 1e-12 relative of |value|+|offset|; everything else exactly",
                   "invalid-argument calls are issued only after final_setup (before it the framework collects the "
                   "error and raises it at final_setup by design)"]
    knobs = dict(ALL_KNOBS)

    def world_knobs(self, rng):
        k = dict(ALL_KNOBS)
        k.update(cycle=rng.choice([0.0, 0.5]), imp=rng.choice([0.0, 0.3]), scaling=rng.choice([0.0, 0.3]),
                 neg_scaling=True, res_ref=True, auto_ivc=0.5)
        return k

    def gen_ops(self, rng, plan):
        w = plan['world']
        seq = [gen_roundtrip(rng, w) for _ in range(rng.randint(2, 6))]
        ops = [{'op': 'setup'}]
        ops += [dict(o, phase='pre') for o in seq]
        ops.append({'op': 'final_setup'})
        ops += [dict(o, phase='post') for o in seq]
        for _ in range(rng.randint(0, 2)):
            ops.append(gen_roundtrip(rng, w, invalid=True))
        if rng.random() < 0.4:
            ops += gen_faults(rng, w, 1, methods=['compute', 'solve_nonlinear'])
        ops.append({'op': 'run_model'})
        ops.append({'op': 'run_model'})
        ops += [dict(o, phase='run') for o in seq]
        for _ in range(rng.randint(0, 2)):
            ops.append(gen_roundtrip(rng, w, invalid=True))
        return ops

    def nontrivial(self, plan, st, faults, probes):
        return probes.get('roundtrip_with_idx_or_units', 0) > 0

    def execute(self, plan, log, st, faults, probes, viol):
        sim = Sim(plan, log, set(), st=st, probes=probes)
        w = sim.world
        results = {}

        def snapshot():
            out = {}
            for c in w['comps']:
                for o in c['outs']:
                    out[o['name']] = np.array(sim.p.get_val(sim.absn(o['name']))).copy()
                for i in c['ins']:
                    # user-visible value of independent (auto-IVC backed) inputs; connected inputs are a
                    # function of their source and are judged after the run instead
                    if i.get('via') == 'auto':
                        out[i['name']] = np.array(sim.p.get_val(sim.absn(i['name']))).copy()
            return out

        def roundtrip(op):
            c, io_, v = sim.own[op['var']]
            name = sim.absn(op['var']) if op['form'] == 'abs' else sim.promn(op['var'])
            sel, shape = spec.apply_index(v['shape'], op.get('idx'), False)
            vals = np.resize(np.array(op['vals'], dtype=float), len(sel)).reshape(shape)
            if op.get('idx') is not None and np.ndim(np.zeros(v['shape'])[spec.decode_index(op['idx'])]) == 0:
                vals = vals.reshape(())
            kw = {}
            if op.get('idx') is not None:
                kw['indices'] = B.to_index(op['idx'])
            if op.get('units'):
                kw['units'] = op['units']
            before = snapshot()
            sim.p.set_val(name, vals, **kw)
            got = np.array(sim.p.get_val(name, **kw))
            after = snapshot()
            f, o = spec.conv(op.get('units'), v['units']) if op.get('units') else (1.0, 0.0)
            tol = 0.0 if (f == 1.0 and o == 0.0) else 1e-12 * (np.abs(vals).max() + abs(o / f) + 1.0)
            if got.shape != vals.shape and got.size == vals.size:
                got = got.reshape(vals.shape)
            if got.shape != vals.shape or not np.all(np.abs(got - vals) <= tol):
                viol.append({'inv': 'I-07-roundtrip', 'msg': f"phase {op.get('phase')}: set_val({name!r}, "
                             f"{vals.tolist()}, {kw}) then get_val returned {got.tolist()}"})
                return None
            # every other entry of every variable is unchanged
            for nm in before:
                if nm == op['var']:
                    b, a = before[nm].ravel().copy(), after[nm].ravel().copy()
                    mask = np.ones(b.size, dtype=bool)
                    mask[sel] = False
                    same = np.array_equal(b[mask], a[mask])
                    want = vals.ravel() * f + o
                    hit = relerr(a[sel], want) <= 1e-12
                    if not hit:
                        viol.append({'inv': 'I-07-stored', 'msg': f"phase {op.get('phase')}: after set_val({name!r}, "
                                     f"{vals.tolist()}, {kw}) the variable holds {a.tolist()} (expected "
                                     f"{want.tolist()} at {sel})"})
                        return None
                else:
                    same = np.array_equal(before[nm], after[nm])
                if not same:
                    viol.append({'inv': 'I-07-others', 'msg': f"phase {op.get('phase')}: set_val({name!r}, {kw}) "
                                 f"changed other entries: {nm} {before[nm].tolist()} -> {after[nm].tolist()}"})
                    return None
            if op.get('idx') is not None or op.get('units'):
                probes.inc('roundtrip_with_idx_or_units')
            st.inc('roundtrips')
            # keep the reference's independent values in step
            key = op['var'] if op['kind'] == 'ivc' else ('_auto:' + op['var'] if op['kind'] == 'auto' else None)
            if key is not None:
                cur = sim.ref.indep[key].copy()
                cur[sel] = vals.ravel() * f + o
                sim.ref.indep[key] = cur
            sim.clean = False
            return got

        def invalid(op):
            c, io_, v = sim.own[op['var']]
            name = sim.absn(op['var']) if op['form'] == 'abs' else sim.promn(op['var'])
            kw = {}
            if op.get('idx') is not None:
                kw['indices'] = B.to_index(op['idx'])
            if op.get('units'):
                kw['units'] = op['units']
            n = int(np.prod(v['shape']))
            vals = np.ones(n + 2) if op['invalid'] == 'shape' else np.ones(v['shape'])
            if op['invalid'] == 'index':
                vals = 1.0
            before = snapshot()
            try:
                sim.p.set_val(name, vals, **kw)
                raised = False
            except Exception as e:      # noqa
                raised = True
                log.ev('invalid-raised', type(e).__name__)
            after = snapshot()
            if not raised:
                viol.append({'inv': 'I-07-invalid-accepted', 'msg': f"set_val({name!r}, shape {np.shape(vals)}, {kw}) "
                             f"with invalid {op['invalid']} did not raise"})
                return
            for nm in before:
                if not np.array_equal(before[nm], after[nm], equal_nan=True):
                    viol.append({'inv': 'I-07-failed-set-changed-state', 'msg': f"rejected set_val({name!r}, {kw}) "
                                 f"changed {nm}: {before[nm].tolist()} -> {after[nm].tolist()}"})
                    return
            st.inc('invalid_sets_rejected')

        for op in plan['ops']:
            if op['op'] == 'roundtrip':
                st.inc('ops')
                log.ev('op', 'roundtrip', op.get('phase'), op['var'])
                try:
                    import contextlib, io
                    with contextlib.redirect_stdout(io.StringIO()):
                        if op.get('invalid'):
                            invalid(op)
                            got = None
                        else:
                            got = roundtrip(op)
                except Exception as e:      # noqa
                    import traceback
                    tb = traceback.extract_tb(e.__traceback__)
                    if not any('/repo/' in f.filename for f in tb):
                        raise
                    viol.append({'inv': 'I-07-exception', 'msg': f"phase {op.get('phase')}: {op} raised "
                                 f"{type(e).__name__}: {str(e)[:300]}",
                                 'ctx': type(e).__name__})
                    got = None
                if viol:
                    return
                if got is not None and not op.get('invalid'):
                    log.ev('got', got)
            else:
                res, raised, fired = sim.do(op)
                for f in sim.rt.fired[len(sim.rt.fired) - fired:]:
                    faults.inc(f['kind'] + ':' + f['method'])
                if sim.viol:
                    viol.extend(sim.viol)
                    return
                if sim.void:
                    return
                if op['op'] == 'run_model' and raised is None and sim.clean:
                    # the values set before the run are what the model ran with
                    if not sim.check_values(inv_out='I-07-run-outputs', inv_in='I-07-run-inputs'):
                        viol.extend(sim.viol)
                        return


CHECKS['C07'] = C07()


# =========================================================================== C31
READONLY = ('totals', 'jacvec', 'check_partials', 'check_totals', 'list_outputs', 'list_inputs', 'list_vars',
            'coloring')


def gen_readonly(rng, world):
    k = rng.choice(['totals', 'totals', 'jacvec', 'check_partials', 'check_totals', 'check_totals', 'list_outputs',
                    'list_inputs', 'list_vars', 'coloring'])
    if k == 'totals':
        return gen_totals_op(rng, world)
    if k == 'jacvec':
        return {'op': 'jacvec', 'seed': rng.randint(0, 999)}
    if k == 'check_partials':
        return {'op': 'check_partials', 'method': rng.choice(['fd', 'fd', 'cs'])}
    if k == 'check_totals':
        return {'op': 'check_totals', 'directional': rng.random() < 0.4, 'method': rng.choice(['fd', 'fd', 'cs'])}
    if k == 'coloring':
        return {'op': 'coloring', 'num_full_jacs': rng.choice([1, 2, 3])}
    return {'op': k}


def c31_history(rng, world):
    ops = [{'op': 'setup'}, {'op': 'run_model'}]
    nf = 0
    for _ in range(rng.randint(3, 9)):
        r = rng.random()
        if r < 0.2:
            ops.append(gen_set(rng, world, with_units=rng.random() < 0.3, with_idx=rng.random() < 0.3))
            ops.append({'op': 'run_model'})
        elif r < 0.3 and nf < 2:
            if rng.random() < 0.5:
                ops += gen_faults(rng, world, 1, kinds=('analysis_error',))
                ops.append({'op': 'run_model'})
                ops.append({'op': 'run_model'})
            else:
                # a derivative query that fails half way (the framework's own design variables and responses,
                # so that it works on the model's shared relevance), then new inputs and an evaluation: what the
                # failed query left behind must not show in the values
                ops += gen_faults(rng, world, 1, kinds=('analysis_error',), methods=['compute_partials', 'linearize'])
                ops[-1]['n'] = 1
                nr, nd = len(world['resps']), len(world['dvs'])
                ops.append({'op': 'totals', 'of': list(range(nr)), 'wrt': list(range(nd)), 'fmt': 'flat_dict',
                            'driver_scaling': False, 'explicit': False})
                ops.append(gen_set(rng, world))
                ops.append({'op': 'run_model'})
                ops.append({'op': 'run_model'})
            nf += 1
        elif r < 0.4:
            ops.append({'op': 'rerun_restored'})
        else:
            ops.append(gen_readonly(rng, world))
    return ops


class C31(WorldCheck):
    pid = 'C31'
    digest_mismatch_is_violation = True

    def budget(self, tier):
        if tier == 'thorough':
            return {'runs': 30000, 'time': 1200.0, 'run_cap': 600.0, 'selftest': 100}
        return {'runs': 1500, 'time': 55.0, 'run_cap': 300.0, 'selftest': 12}

    rule = ("plans = two independent generated worlds with their own API-call histories (run_model, set_val, "
            "compute_totals, compute_jacvec_product, check_partials, check_totals incl. directional, total coloring, "
            "list_*, AnalysisError faults, re-run from a restored state) + a seeded interleaving of the two "
            "histories in one interpreter with global-RNG perturbation events; each world's model-visible log "
            "(state hashes, totals, jacvec results) must equal the log of its solo execution, read-only calls must "
            "leave inputs and outputs bitwise unchanged; distinct = event-log digests; non-trivial = at least one "
            "read-only call was bracketed by state hashes and the interleaving switched worlds at least twice")
    assumptions = ["complex-step checks are requested only when the problem was set up with force_alloc_complex",
                   "values of directional check_totals / check_partials are random by documentation and are not part of "
                   "the compared log (their effect on model state is)",
                   "residual vectors are not part of the read-only invariant (the statement names inputs and outputs)",
                   "re-run from a restored state must be bitwise equal for RunOnce/NLBGS(no Aitken)/NLBJ/Newton stacks and "
                   "equal to solver tolerance for stacks with documented memory (Broyden, Aitken)"]

    def world_knobs(self, rng):
        k = dict(ALL_KNOBS)
        k.update(ncomp=(2, 5), cycle=rng.choice([0.0, 0.5]), imp=rng.choice([0.0, 0.3]), quad=rng.choice([0.0, 0.4]),
                 scaling=rng.choice([0.0, 0.3]), res_ref=True, mf=rng.choice([0.0, 0.1]),
                 approx=rng.choice([0.0, 0.0, 0.3]), nl=['nlbgs', 'newton', 'nlbj', 'broyden'])
        return k

    def gen(self, rng, tier):
        wa = spec.gen_world(rng, self.world_knobs(rng))
        wb = spec.gen_world(rng, self.world_knobs(rng))
        plan = {'world': wa, 'world2': wb,
                'knobs': {'mode': rng.choice(['auto', 'fwd', 'rev']), 'complex': rng.random() < 0.5},
                'knobs2': {'mode': rng.choice(['auto', 'fwd', 'rev']), 'complex': rng.random() < 0.5},
                'ops': c31_history(rng, wa), 'ops2': c31_history(rng, wb)}
        na, nb = len(plan['ops']), len(plan['ops2'])
        sched = ['a'] * na + ['b'] * nb
        rng.shuffle(sched)
        # global events between steps
        plan['schedule'] = []
        for s in sched:
            if rng.random() < 0.15:
                plan['schedule'].append(['rng', rng.randint(0, 2 ** 31 - 1), rng.randint(0, 5)])
            plan['schedule'].append([s])
        return plan

    def nontrivial(self, plan, st, faults, probes):
        return probes.get('readonly_bracketed', 0) > 0 and probes.get('world_switches', 0) >= 2

    def shape_of(self, plan, st):
        return WorldCheck.shape_of(self, plan, st) + '+' + WorldCheck.shape_of(
            self, {'world': plan['world2'], 'knobs': plan['knobs2']}, st)

    def _step(self, sim, op, mlog, viol, faults, probes):
        """Execute one op on one sim, append model-visible results to mlog."""
        kind = op['op']
        memoryless = all(s['nl'] in ('runonce', 'nlbj', 'newton') or (s['nl'] == 'nlbgs' and not s.get('aitken'))
                         for s in sim.world['solvers'].values())
        if memoryless and any(s['nl'] == 'newton' for s in sim.world['solvers'].values()) and \
                any(s['ln'].split('_')[0] in ('lnbgs', 'lnbj', 'krylov') for s in sim.world['solvers'].values()):
            # Newton does not zero d_outputs before its linear solve, and an iterative linear solver starts from
            # what it finds there (e.g. the random direction a directional check_totals left behind): the Newton
            # steps, hence the converged state, agree to solver tolerance only
            memoryless = False
        if kind in ('check_partials', 'check_totals') and op.get('method') == 'cs' and not sim.knobs.get('complex'):
            op = dict(op, method='fd')
        if kind == 'rerun_restored':
            if not sim.final:
                return True
            m = sim.p.model
            x0, y0 = m._inputs.asarray(copy=True), m._outputs.asarray(copy=True)
            r1, e1, f1 = sim.do({'op': 'run_model'})
            out1 = m._outputs.asarray(copy=True)
            m._inputs.set_val(x0)
            m._outputs.set_val(y0)
            r2, e2, f2 = sim.do({'op': 'run_model'})
            out2 = m._outputs.asarray(copy=True)
            if sim.viol or sim.void:
                return not sim.viol
            if e1 is None and e2 is None and f1 == 0 and f2 == 0:
                sim.probes.inc('rerun_from_restored_state')
                same = np.array_equal(out1, out2, equal_nan=True) if memoryless else relerr(out1, out2) <= sim.tol
                if not same:
                    viol.append({'inv': 'I-31b-rerun', 'msg': f"[{sim.name}] run_model twice from the same restored "
                                 f"state gave different outputs (max diff {np.nanmax(np.abs(out1 - out2))!r}, "
                                 f"solvers {sim.world['solvers']})"})
                    return False
            # (a stack with memory agrees with its solo execution to solver tolerance only, see below)
            mlog.append(('rerun', out2.tobytes()) if memoryless else ('SV', [('rerun', out2)]))
            return True
        bracket = kind in READONLY and sim.final
        before = sim.state_bytes() if bracket else None
        ctx_state = np.concatenate([sim.p.model._inputs.asarray(), sim.p.model._outputs.asarray()]).copy() \
            if bracket else None
        if kind == 'coloring' and not sim.final:
            return True

        def all_totals():
            # every total of the declared responses wrt the declared design variables, outside the logs
            import contextlib
            import io
            try:
                with contextlib.redirect_stdout(io.StringIO()):
                    T = sim.p.compute_totals(return_format='flat_dict')
                return {k: np.array(v, dtype=float) for k, v in T.items()}
            except Exception:      # noqa
                return None
        dq = bracket and sim.clean and kind in ('check_partials', 'check_totals', 'coloring', 'list_outputs',
                                                 'list_inputs', 'list_vars') and not sim.rt.faults
        tot_before = all_totals() if dq else None
        # the approximation bound that goes with tot_before (the steps the framework holds now; the read-only
        # call may make a component recompute them)
        ab_before = sim.approx_abs_bound() if tot_before is not None and any(
            c.get('approx') for c in sim.world['comps']) else 0.0
        res, raised, fired = sim.do(op)
        for f in sim.rt.fired[len(sim.rt.fired) - fired:]:
            faults.inc(f['kind'] + ':' + f['method'])
        if sim.viol:
            viol.extend(sim.viol)
            return False
        if sim.void:
            return True
        if kind == 'run_model' and raised is None and fired == 0 and sim.clean:
            # an evaluation is a function of the inputs only: whatever the history did before (failed derivative
            # queries included), the values are those of the plan's model
            if not sim.check_values(inv_out='I-31b-values', inv_in=None):
                viol.extend(sim.viol)
                return False
            if sim.void:
                return True
        if bracket and raised is None and fired == 0:
            probes.inc('readonly_bracketed')
            after = sim.state_bytes()
            changed = after != before
            if changed and any(any(k in o for k in ('ref', 'ref0', 'res_ref')) for c in sim.world['comps']
                               for o in c['outs']):
                # with solver scaling, derivative queries put vectors through a scale/unscale round trip:
                # last-bit drift is not a leak (a leaked FD/CS perturbation is >= 1e-8 relative)
                na = np.frombuffer(before, dtype=np.uint8)
                xa = np.concatenate([np.frombuffer(x, dtype=float) for x in before.split(b'|')]) \
                    if len(before) % 8 == (len(before.split(b'|')) - 1) % 8 else None
                m = sim.p.model
                cur = np.concatenate([m._inputs.asarray(), m._outputs.asarray()])
                old = ctx_state
                changed = not np.allclose(cur, old, rtol=1e-13, atol=1e-13 * (1 + np.abs(old).max()), equal_nan=True)
                if not changed:
                    probes.inc('scaled_roundtrip_ulp_drift')
            if changed:
                viol.append({'inv': 'I-31a-readonly', 'msg': f"[{sim.name}] {kind} ({ {k: v for k, v in op.items() if k != 'op'} }) "
                             f"changed the model's inputs/outputs", 'ctx': kind})
                return False
            if tot_before is not None:
                # no hidden state either: the same derivative query before and after the read-only call
                tot_after = all_totals()
                if tot_after is not None:
                    probes.inc('totals_compared_around_readonly_call')
                    tol_ = 1e-12 if (memoryless and not sim._iterative()) else max(sim.tol, 1e-9)
                    # approximated partials: a check may make a component recompute the (relative) steps it had
                    # cached, after which its FD values differ within the method's round-off for those steps
                    ab_ = 2.0 * max(sim.approx_abs_bound(), ab_before) \
                        if any(c.get('approx') for c in sim.world['comps']) else 0.0
                    for k_, v0 in tot_before.items():
                        v1 = tot_after.get(k_)
                        if v1 is not None and v1.shape == v0.shape and ab_ > 0.0 and np.all(np.isfinite(v1)) and \
                                float(np.abs(v1 - v0).max()) <= ab_:
                            continue
                        if v1 is None or v1.shape != v0.shape or \
                                relerr(v1, v0, floor=1e-3 + float(np.abs(v0).max())) > tol_:
                            viol.append({'inv': 'I-31a-derivs', 'msg': f"[{sim.name}] compute_totals {k_} before {kind}: "
                                         f"{v0.tolist()}, after: {None if v1 is None else v1.tolist()}", 'ctx': kind})
                            return False
        if sim.p is not None and sim.final:
            if memoryless:
                mlog.append((kind, sim.state_bytes()))
            else:
                # solvers with memory (Broyden's inverse jacobian, Aitken's relaxation factor) carry the
                # points visited by earlier solves -- including the RANDOM direction of a directional
                # check_totals/check_partials, drawn from the global RNG -- into later solves: their converged
                # states agree to solver tolerance, not bitwise
                m_ = sim.p.model
                mlog.append(('SV', [(kind, np.concatenate([m_._inputs.asarray(), m_._outputs.asarray()]))]))
        if kind == 'totals' and res is not None:
            mlog.append(('T', [(k, v) for k, v in sorted(res.items())]))
        if kind == 'jacvec' and res is not None:
            mlog.append(('JV', [(k, v) for k, v in sorted(res['Jv'].items())] +
                         [(k, v) for k, v in sorted(res['JTw'].items())]))
        if raised is not None:
            mlog.append(('raised', type(raised).__name__))
        return True

    def execute(self, plan, log, st, faults, probes, viol):
        import copy as _c
        pa = {'world': plan['world'], 'knobs': plan['knobs']}
        pb = {'world': plan['world2'], 'knobs': plan['knobs2']}

        def solo(p_, ops, name):
            sim = Sim(p_, log, set(), name=name, st=st, probes=probes)
            ml = []
            for op in ops:
                if not self._step(sim, _c.deepcopy(op), ml, viol, faults, probes):
                    return None
                if sim.void:
                    return 'void'
            return ml
        reset_process_state(plan.get('run_seed', 0))
        la = solo(pa, plan['ops'], 'a')
        if viol or la is None:
            return
        reset_process_state(plan.get('run_seed', 0))
        lb = solo(pb, plan['ops2'], 'b')
        if viol or lb is None:
            return
        if la == 'void' or lb == 'void':
            return
        # interleaved execution in one interpreter
        reset_process_state(plan.get('run_seed', 0))
        sa = Sim(pa, log, set(), name='a', st=Counter(), probes=probes)
        sb = Sim(pb, log, set(), name='b', st=Counter(), probes=probes)
        ia = ib = 0
        ma, mb = [], []
        dummy = Counter()
        last = None
        for ev in plan['schedule']:
            if ev[0] == 'rng':
                np.random.seed(ev[1])
                for _ in range(ev[2]):
                    np.random.random()
                probes.inc('rng_perturbations')
                continue
            if ev[0] == 'a' and ia < len(plan['ops']):
                ok = self._step(sa, _c.deepcopy(plan['ops'][ia]), ma, viol, dummy, Counter())
                ia += 1
            elif ev[0] == 'b' and ib < len(plan['ops2']):
                ok = self._step(sb, _c.deepcopy(plan['ops2'][ib]), mb, viol, dummy, Counter())
                ib += 1
            else:
                continue
            if last is not None and last != ev[0]:
                probes.inc('world_switches')
            last = ev[0]
            if not ok or viol:
                return
        def same(x, y, sim):
            if x[0] != y[0]:
                return False
            if x[0] in ('T', 'JV', 'SV'):
                # derivative results of iterative linear solvers depend on the linear vectors' previous
                # content (their initial guess) within the solver tolerance; direct stacks must be bitwise
                iterative = x[0] == 'SV' or any(
                    s_['ln'].split('_')[0] in ('lnbgs', 'lnbj', 'krylov') or s_['nl'] == 'broyden' or
                    (s_['nl'] == 'nlbgs' and s_.get('aitken')) for s_ in sim.world['solvers'].values())
                if len(x[1]) != len(y[1]):
                    return False
                for (k1, v1), (k2, v2) in zip(x[1], y[1]):
                    if k1 != k2:
                        return False
                    if iterative:
                        if relerr(v1, v2, floor=1e-3 + float(np.abs(v2).max() if v2.size else 0)) > sim.tol * 10:
                            return False
                    elif not np.array_equal(v1, v2, equal_nan=True):
                        return False
                return True
            return x == y

        for nm, solo_log, inter, sim_ in (('a', la, ma, sa), ('b', lb, mb, sb)):
            if len(solo_log) != len(inter) or not all(same(x, y, sim_) for x, y in zip(solo_log, inter)):
                k = next((i for i, (x, y) in enumerate(zip(solo_log, inter)) if not same(x, y, sim_)),
                         min(len(solo_log), len(inter)))
                what = solo_log[k][0] if k < len(solo_log) else 'length'
                viol.append({'inv': 'I-31c-interleave', 'msg': f"world {nm}: model-visible log differs between solo and "
                             f"interleaved execution at entry {k} ({what}); solo {len(solo_log)} entries, interleaved "
                             f"{len(inter)}", 'ctx': str(what)})
                return
        import hashlib as _h
        log.ev('mlog', _h.sha1(repr([[(e[0], e[1] if isinstance(e[1], (bytes, str)) else
                                         [(k, v.tobytes()) for k, v in e[1]]) for e in l_] for l_ in (la, lb)]
                                    ).encode()).hexdigest())

    def candidates(self, plan):
        # drop ops of either history (and the matching schedule entries)
        for key, tag in (('ops', 'a'), ('ops2', 'b')):
            ops = plan[key]
            for a, b in list(_chunks(len(ops) - 1)):
                c = copy.deepcopy(plan)
                c[key] = ops[:1] + ops[1:][:a] + ops[1:][b:]
                removed = b - a
                sched = []
                seen = 0
                for ev in c['schedule']:
                    if ev[0] == tag:
                        seen += 1
                        if seen > len(c[key]):
                            continue
                    sched.append(ev)
                c['schedule'] = sched
                yield c
        if any(ev[0] == 'rng' for ev in plan['schedule']):
            c = copy.deepcopy(plan)
            c['schedule'] = [ev for ev in c['schedule'] if ev[0] != 'rng']
            yield c
        # de-interleave
        c = copy.deepcopy(plan)
        c['schedule'] = [ev for ev in plan['schedule'] if ev[0] == 'a'] + [ev for ev in plan['schedule'] if ev[0] != 'a']
        if c['schedule'] != plan['schedule']:
            yield c
        for k in ('knobs', 'knobs2'):
            if plan[k].get('complex'):
                c = copy.deepcopy(plan)
                c[k]['complex'] = False
                yield c


CHECKS['C31'] = C31()


# =========================================================================== C02
class C02(HistoryCheck):
    pid = 'C02'
    inv_totals = 'I-02-totals'
    rule = ("plans = C01-style worlds set up in rev mode (so both directions are available) x histories of "
            "run_model/set_val/faults/complex-step checks, with compute_jacvec_product (fwd and rev) and root-level "
            "run_apply_linear / run_solve_linear (fwd and rev) on seeded vectors at seeded points; the dot-product "
            "identity <w, J v> = <J^T w, v> must hold and every product must equal the reference operator; "
            "distinct = event-log digests; non-trivial = at least one duality test was evaluated after a "
            "set_val+run or after a fault")
    assumptions = ["a problem set up with mode='rev' is used for both directions (reverse transfers exist only then); "
                   "a second fwd-mode twin repeats the forward products",
                   "identity tolerance 1e-11 x scale for direct linear stacks, solver tolerance for iterative ones",
                   "compute_jacvec_product is called after run_linearize, as LU-based solvers require"]
    twins = ()

    def world_knobs(self, rng):
        k = dict(ALL_KNOBS)
        k.update(cycle=rng.choice([0.0, 0.5, 1.0]), imp=rng.choice([0.0, 0.3]), quad=rng.choice([0.0, 0.4]),
                 scaling=rng.choice([0.0, 0.0, 0.4]), neg_scaling=True, res_ref=True,
                 mf=rng.choice([0.0, 0.0, 0.2]), nl=['nlbgs', 'newton', 'nlbj', 'broyden'],
                 rhs_checking=0.75,      # the reverse-mode right-hand-side cache is a fwd/rev asymmetry of its own
                 chain_resps=0.5,        # ... and is consulted only for responses that depend on other responses
                 tap=rng.choice([0.0, 0.5]),     # ... and answers when one response reads one entry of another
                 sub_ln=rng.choice([0.0, 0.6]), imp2=0.4)
        return k

    def run_knobs(self, rng, world):
        return {'mode': 'rev', 'complex': rng.random() < 0.3}

    def twins_for(self, plan):
        return ('modefwd',)

    def gen_ops(self, rng, plan):
        def extra(rng_, w):
            r = rng_.random()
            if r < 0.45:
                return {'op': 'jacvec', 'seed': rng_.randint(0, 9999)}
            if r < 0.9:
                return {'op': 'linops', 'seed': rng_.randint(0, 9999)}
            return {'op': 'check_totals', 'method': 'cs' if plan['knobs'].get('complex') else 'fd'}
        ops = standard_history(rng, plan['world'], nsteps=(3, 8), extra=extra, fault_p=0.2)
        ops.append(extra(rng, plan['world']))
        return ops

    def nontrivial(self, plan, st, faults, probes):
        return probes.get('duality_after_history', 0) > 0

    def after_op(self, sims, op, outs, viol, ctx, log):
        a = sims[0]
        ra, ea, fa = outs[0]
        if op['op'] == 'set_val' or (op['op'] == 'run_model' and fa):
            ctx['moved'] = True
        if ra is None or ea is not None or not a.clean:
            return True
        tol = 1e-11 if not a._iterative() else a.tol * 10
        y = a.ref.solve()
        if op['op'] == 'jacvec':
            J = a.ref.jac_full(y)
            of, wrt = ra['of'], ra['wrt']
            lhs = rhs = 0.0
            scale = 1.0
            # rev sim gives J^T w; fwd twin gives J v
            rb = outs[1][0] if len(outs) > 1 else None
            Jv = rb['Jv'] if rb is not None and outs[1][1] is None and sims[1].clean else None
            for r in of:
                for d in wrt:
                    key = d['name'] if d['kind'] == 'out' else '_auto:' + d['name']
                    Jref = a.ref.total(J, r['name'], key)
                    rn, dn = a.promn(r['name']), a.promn(d['name'])
                    scale = max(scale, float(np.abs(Jref).max()) * 4)
            ref_Jv = {}
            ref_JTw = {}
            for r in of:
                rn = a.promn(r['name'])
                acc = 0
                for d in wrt:
                    key = d['name'] if d['kind'] == 'out' else '_auto:' + d['name']
                    acc = acc + a.ref.total(J, r['name'], key) @ ra['v'][a.promn(d['name'])]
                ref_Jv[rn] = acc
            for d in wrt:
                dn = a.promn(d['name'])
                key = d['name'] if d['kind'] == 'out' else '_auto:' + d['name']
                acc = 0
                for r in of:
                    acc = acc + a.ref.total(J, r['name'], key).T @ ra['w'][a.promn(r['name'])]
                ref_JTw[dn] = acc
            for dn, val in ra['JTw'].items():
                if relerr(val.ravel(), ref_JTw[dn], floor=scale) > max(tol, a.tol * 10):
                    viol.append({'inv': 'I-02-jacvec-rev', 'msg': f"compute_jacvec_product rev: J^T w for {dn} = "
                                 f"{val.ravel().tolist()} but reference {ref_JTw[dn].tolist()}"})
                    return False
            if Jv is not None:
                for rn, val in Jv.items():
                    if relerr(val.ravel(), ref_Jv[rn], floor=scale) > max(tol, a.tol * 10):
                        viol.append({'inv': 'I-02-jacvec-fwd', 'msg': f"compute_jacvec_product fwd: J v for {rn} = "
                                     f"{val.ravel().tolist()} but reference {ref_Jv[rn].tolist()}"})
                        return False
                lhs = sum(float(ra['w'][rn] @ Jv[rn].ravel()) for rn in Jv)
                rhs = sum(float(ra['JTw'][dn].ravel() @ ra['v'][dn]) for dn in ra['JTw'])
                if abs(lhs - rhs) > tol * scale * (1 + abs(lhs)):
                    viol.append({'inv': 'I-02-dot-jacvec', 'msg': f"<w, J v> = {lhs!r} but <J^T w, v> = {rhs!r}"})
                    return False
                a.probes.inc('duality_tests')
                if ctx.get('moved'):
                    a.probes.inc('duality_after_history')
        if op['op'] == 'linops':
            # The operator is the linearization at the state the model actually holds: with quadratic
            # stubs behind an iterative nonlinear solver that state equals the exact root only to the
            # solver's tolerance (outputs are judged against the root after every run_model), while the
            # products are compared to 1e-10.
            y_lin = a.model_state() if a.ref.quads else None
            if y_lin is None or relerr(y_lin, y) > a.tol:
                y_lin = y
            L = a.ref.lin_operator(y_lin)
            v, w = ra['v'], ra['w']
            scale = 1.0 + float(np.abs(L).max()) * 4
            checks = [('Av', L @ v, 'apply_linear fwd'), ('ATw', L.T @ w, 'apply_linear rev')]
            if 'Sv' in ra:
                checks.append(('Sv', np.linalg.solve(L, v), 'solve_linear fwd'))
            if 'STw' in ra:
                checks.append(('STw', np.linalg.solve(L.T, w), 'solve_linear rev'))
            if a._iterative_linear():
                # an iterative linear solver that did not reach its tolerance on this seeded right-hand side
                # voids the precondition for the solve comparisons (its products are still judged)
                for key, rhs_, Lop in (('Sv', v, L), ('STw', w, L.T)):
                    if key in ra and np.abs(Lop @ ra[key] - rhs_).max() > 1e-6 * (1 + np.abs(ra[key]).max()):
                        ra.pop(key)
                        a.probes.inc('iterative_linear_solve_not_converged')
                checks = [c_ for c_ in checks if c_[0] in ra]
            for key, want, what in checks:
                if key not in ra:
                    continue
                t = 1e-10 if key in ('Av', 'ATw') else max(1e-9, a.tol * 10)
                if relerr(ra[key], want, floor=scale) > t:
                    viol.append({'inv': 'I-02-operator', 'msg': f"root {what} on a seeded vector differs from the "
                                 f"reference operator: got {ra[key].tolist()} want {want.tolist()}", 'ctx': key})
                    return False
            if 'ATw' in ra:
                lhs, rhs = float(w @ ra['Av']), float(ra['ATw'] @ v)
                if abs(lhs - rhs) > 1e-11 * scale * (1 + abs(lhs)) * len(v):
                    viol.append({'inv': 'I-02-dot-apply', 'msg': f"<w, A v> = {lhs!r} but <A^T w, v> = {rhs!r}"})
                    return False
                a.probes.inc('duality_tests')
                if ctx.get('moved'):
                    a.probes.inc('duality_after_history')
            if 'STw' in ra and 'Sv' in ra:
                lhs, rhs = float(w @ ra['Sv']), float(ra['STw'] @ v)
                if abs(lhs - rhs) > max(1e-10, a.tol * 10) * (1 + abs(lhs) + float(np.abs(ra['Sv']).max()) * len(v) * 4):
                    viol.append({'inv': 'I-02-dot-solve', 'msg': f"<w, A^-1 v> = {lhs!r} but <A^-T w, v> = {rhs!r}"})
                    return False
        return True


CHECKS['C02'] = C02()


# =========================================================================== C11
FMT_TWINS = ['fmt:dense', 'fmt:coo', 'fmt:csr', 'fmt:csc', 'fmt:coo_sp']
LN_TWINS = ['ln:direct', 'ln:direct_csc', 'ln:direct_dense', 'ln:krylov_csr', 'ln:krylov_csc', 'ln:krylov_dense',
            'ln:lnbgs', 'ln:krylov']


class C11(C02):
    pid = 'C11'
    inv_totals = 'I-11-totals'
    rule = ("plans = worlds with every sub-jacobian format (dense, rows/cols, diagonal, scipy COO/CSR/CSC), several "
            "inputs of one component drawn from the same source (shared matrix blocks), src_indices column "
            "mapping, unit factors and quadratic stubs (values change on re-linearisation) x a history of "
            "linearise / set_val+run / complex-step checks; the same history is executed by 2-3 twins that differ in "
            "declared sub-jacobian format and in how the jacobian is applied (dictionary, assembled dense/CSC/CSR "
            "under Direct/Krylov/LinearBlockGS); after every update the root forward product, transpose product, "
            "linear solves and totals must agree across twins and with the reference operator; distinct = "
            "event-log digests; non-trivial = at least two re-linearisations at different points were compared "
            "across twins")
    assumptions = ["operators are driven through run_linearize / run_apply_linear / run_solve_linear and compute_totals "
                   "(the matrices are not driven stand-alone)",
                   "assembled COO is exercised as the common build path of CSC/CSR (there is no user-selectable COO type)",
                   "products compared to 1e-10 x scale; solves to the linear-solver tolerance of the twin"]

    def world_knobs(self, rng):
        k = dict(ALL_KNOBS)
        k.update(cycle=rng.choice([0.0, 0.5]), imp=rng.choice([0.0, 0.4]), quad=0.5, same_src=0.6,
                 scaling=rng.choice([0.0, 0.0, 0.3]), neg_scaling=True, res_ref=True, mf=0.0,
                 nl=['nlbgs', 'newton', 'nlbj'], two_outs=0.4, imp2=0.4)
        return k

    def run_knobs(self, rng, world):
        tw = []
        for _ in range(rng.randint(2, 3)):
            tw.append(rng.choice(FMT_TWINS) + ',' + rng.choice(LN_TWINS))
        return {'mode': 'rev', 'complex': rng.random() < 0.5, 'twins': tw}

    def twins_for(self, plan):
        return tuple(plan['knobs']['twins'])

    def gen_ops(self, rng, plan):
        w = plan['world']
        ops = [{'op': 'setup'}, {'op': 'run_model'}, {'op': 'linops', 'seed': rng.randint(0, 9999)}]
        for _ in range(rng.randint(1, 4)):
            r = rng.random()
            if r < 0.6:
                ops.append(gen_set(rng, w))
                ops.append({'op': 'run_model'})
            elif r < 0.8:
                ops.append({'op': 'check_totals', 'method': 'cs' if plan['knobs'].get('complex') else 'fd'})
            else:
                ops += gen_faults(rng, w, 1, kinds=('analysis_error',), methods=['compute_partials', 'linearize', 'compute'])
                ops.append({'op': 'run_model'})
                ops.append({'op': 'run_model'})
            ops.append({'op': 'linops', 'seed': rng.randint(0, 9999)})
            if rng.random() < 0.5:
                ops.append(gen_totals_op(rng, w))
        return ops

    def nontrivial(self, plan, st, faults, probes):
        return probes.get('twin_operator_comparisons', 0) >= 2

    def after_op(self, sims, op, outs, viol, ctx, log):
        a = sims[0]
        if not C02.after_op(self, sims[:1], op, outs[:1], viol, ctx, log):
            return False
        ra, ea, fa = outs[0]
        if ra is None or ea is not None or not a.clean:
            return True
        for sim, (rb, eb, fb) in zip(sims[1:], outs[1:]):
            if rb is None or eb is not None or not sim.clean:
                continue
            if op['op'] == 'linops':
                # the twin against the reference first (this also drops its non-converged iterative solves)
                if not C02.after_op(self, [sim], op, [(rb, eb, fb)], viol, {}, log):
                    return False
                # quadratic blocks are linearized at each Problem's own converged state; two solver stacks agree on
                # that state to their tolerances only (observed: 1.7e-8 in one operator entry, Newton+direct
                # against Newton+LinearBlockGS), so the operators may differ by (second derivative) x (state
                # difference) x (unit factors up to 1e3) x |seed|
                extra = 0.0
                if a.ref.quads:
                    dstate = max([float(np.abs(np.asarray(a.p.get_val(n_)) - np.asarray(sim.p.get_val(n_))).max())
                                  for _k, n_ in a.vec_names()] + [0.0])
                    cmax = max(float(np.abs(q_[2]).max()) for q_ in a.ref.quads)
                    extra = 2.0 * cmax * dstate * 1e3 * 8.0
                for key in ('Av', 'ATw', 'Sv', 'STw'):
                    if key in ra and key in rb:
                        t = 1e-10 if key in ('Av', 'ATw') else max(1e-9, a.tol * 10, sim.tol * 10)
                        fl = 1.0 + float(np.abs(ra[key]).max())
                        if relerr(rb[key], ra[key], floor=fl) > t + extra / fl * (1.0 + float(np.abs(ra[key]).max())):
                            viol.append({'inv': 'I-11-twin-operator', 'msg': f"{key} differs between jacobian "
                                         f"representations: base ({a.world['solvers']['']['ln']}) {ra[key].tolist()} vs "
                                         f"twin {sim.variant} {rb[key].tolist()}", 'ctx': key})
                            return False
                a.probes.inc('twin_operator_comparisons')
            if op['op'] == 'totals':
                for k2 in ra:
                    if relerr(rb[k2], ra[k2], floor=1e-3 + float(np.abs(ra[k2]).max())) > max(a.tol, sim.tol) * 10:
                        viol.append({'inv': 'I-11-twin-totals', 'msg': f"totals {k2} differ between jacobian "
                                     f"representations: base {ra[k2].tolist()} vs twin {sim.variant} {rb[k2].tolist()}"})
                        return False
        return True


CHECKS['C11'] = C11()


# =========================================================================== C12
class C12(HistoryCheck):
    pid = 'C12'
    inv_totals = 'I-12-values'
    rule = ("plans = worlds whose components approximate their partials (fd forward/backward/central x step x "
            "step_calc, cs), optionally with a group-level or model-level approx_totals, x histories of "
            "run_model/set_val/linearise/compute_totals with component faults; every approximated total is compared "
            "with the exact reference within the method's error bound, the model's inputs, outputs and residuals "
            "are compared bitwise around every normally returned approximation, and a twin with coloured "
            "approximations must give the same values; distinct = event-log digests; non-trivial = at least one "
            "approximation was bracketed by state snapshots and compared with the reference")
    assumptions = ["fd bound: 5e-4 relative to the largest reference entry (affine worlds are exact up to eps*|y|/h; "
                   "the mild quadratic terms add a truncation error of order h); cs bound 1e-8",
                   "coloured vs uncoloured approximations compared to 1e-6 relative (simultaneous perturbations change the "
                   "round-off, not the values)",
                   "restoration after an approximation that raised is not asserted (the statement does not require it); the "
                   "next fault-free run must satisfy everything again"]

    def budget(self, tier):
        if tier == 'thorough':
            return {'runs': 40000, 'time': 900.0, 'run_cap': 600.0, 'selftest': 100}
        return {'runs': 2000, 'time': 55.0, 'run_cap': 300.0, 'selftest': 12}

    def world_knobs(self, rng):
        k = dict(ALL_KNOBS)
        k.update(cycle=rng.choice([0.0, 0.0, 0.5]), imp=rng.choice([0.0, 0.2]), quad=rng.choice([0.0, 0.4]),
                 scaling=rng.choice([0.0, 0.0, 0.3]), res_ref=True, approx=0.6, approx_imp=True, mf=0.0,
                 nl=['nlbgs', 'newton', 'nlbj'], temps=False)
        return k

    def run_knobs(self, rng, world):
        kn = {'mode': rng.choice(['auto', 'fwd', 'rev']), 'complex': True}
        r = rng.random()
        g = None
        if r < 0.3:
            kn['approx_totals'] = {'method': rng.choice(['fd', 'fd', 'cs']), 'form': rng.choice(['forward', 'backward', 'central']),
                                   'step': rng.choice([1e-6, 1e-5])}
            if kn['approx_totals']['method'] == 'fd' and world['solvers']['']['nl'] not in ('newton', 'broyden') \
                    and rng.random() < 0.4:
                # (under a top-level Newton the approximation is initialised at an iterate inside run_model)
                kn['approx_totals']['step_calc'] = 'rel_avg'
        elif r < 0.5 and len(world['groups']) > 1:
            # A group that approximates its semi-totals presents itself as an explicit component (dR/dy =
            # -I); a gradient-based nonlinear solver on that same group would be handed that semi-total in
            # place of the partials it needs (observed: Newton diverges to NaN in run_model).  That is a
            # modelling error, not an approximation whose accuracy the property speaks about.
            # The same holds for such a solver on any group above it when the approximated group holds an
            # implicit component (its residual stays in implicit form while its jacobian is the explicit
            # one), and on the current tree the approximation keys of a group under a Newton solve in
            # run_model are pruned by the driver's relevance (singular Newton matrix): both are outside the
            # statement, so approximated groups are generated under run-once / fixed-point ancestors only.
            def ancestors_ok(g_):
                while True:
                    if world['solvers'].get(g_, {'nl': 'runonce'})['nl'] in ('newton', 'broyden'):
                        return False
                    if not g_:
                        return True
                    g_ = world['groups'][g_]['parent'] or ''
            cands = [g_ for g_ in sorted(world['groups']) if g_ and ancestors_ok(g_)]
            g = rng.choice(cands) if cands else None
            cyc = world['cycle']
            if cyc is not None and g is not None:
                inside = lambda x: x == g or x.startswith(g + '.')
                byn = B.comp_by_name(world)
                if inside(byn[cyc['early']]['group']) and inside(byn[cyc['late']]['group']) and \
                        not inside(cyc['group']):
                    # the feedback loop closes inside g but is converged by a solver above g: differencing g
                    # (which then only runs once) is not differencing the converged model -- a modelling
                    # error of the user, not an approximation the property speaks about
                    g = None
        if g is not None:
            kn['group_approx'] = {g: {'method': rng.choice(['fd', 'cs']), 'form': rng.choice(['forward', 'central']),
                                      'step': rng.choice([1e-6, 1e-5])}}
            if kn['group_approx'][g]['method'] == 'fd' and rng.random() < 0.4:
                kn['group_approx'][g]['step_calc'] = 'rel_avg'
        kn['twin_colored'] = rng.random() < 0.4
        if kn.get('approx_totals') and world['solvers']['']['nl'] in ('newton', 'broyden'):
            # A model-level approximation coloring under a top-level gradient-based nonlinear solver is
            # computed inside that solver's first linearization, i.e. inside run_model; on the current tree
            # that raises ('_ColSparsityJac' object has no attribute '_apply').  C12 states nothing about
            # run_model in that configuration (see DESIGN 7.2), so the twin is not generated there.
            kn['twin_colored'] = False
        return kn

    def twins_for(self, plan):
        return ('colored',) if plan['knobs'].get('twin_colored') else ()

    @staticmethod
    def finding_classes(plan, upto=None):
        """Configuration classes of the recorded findings (known_findings.json) that apply to a plan, in order
        of precedence; evaluated on the plan only, so that shrinking keeps a violation inside its class.
        upto: index of the op the violation was raised on (history-dependent classes look at the ops before it)."""
        w, kn = plan['world'], plan['knobs']
        ops = plan['ops'] if upto is None else plan['ops'][:upto + 1]
        out = []
        scoped = [(g_, a) for g_, a in (kn.get('group_approx') or {}).items() if g_ in w['groups']]
        if kn.get('approx_totals'):
            scoped.append(('', kn['approx_totals']))

        def inside(x, g_):
            return g_ == '' or x == g_ or x.startswith(g_ + '.')
        for g_, a in scoped:
            if a['method'] == 'cs' and any(
                    s_['nl'] in ('newton', 'broyden') and s_['ln'].split('_')[0] in ('krylov', 'lnbgs', 'lnbj')
                    for gn, s_ in w['solvers'].items() if inside(gn, g_)):
                out.append('cs-across-newton-with-iterative-linear-solver')
                break
        # stale residuals need a history: residuals evaluated by the user (apply_nonlinear), then something that
        # moves the state without evaluating them again (run_model under a run-once group, set_val, ...), then
        # the derivative op.  A derivative op straight after apply_nonlinear sees current residuals.
        state, stale_possible = 'solver', False
        for i, o in enumerate(ops):
            deriv = o['op'] in ('totals', 'linearize')
            if deriv and state == 'stale' and (upto is None or i == len(ops) - 1):
                stale_possible = True
            if o['op'] == 'apply_nonlinear':
                state = 'user'
            elif not deriv and o['op'] != 'fault' and state == 'user':
                state = 'stale'
        if stale_possible and any(
                c['kind'] == 'imp' and (c.get('approx') or {}).get('method') == 'fd' and c['approx']['form'] != 'central'
                for c in w['comps']):
            out.append('one-sided-fd-of-implicit-component-on-stale-residuals')
        for g_, a in scoped:
            anc = g_ if g_ else None       # (the approximated group's own linear solver is linearized too)
            while anc is not None:
                if '_' in w['solvers'].get(anc, {'ln': 'runonce'})['ln']:
                    out.append('approximated-group-under-assembled-jacobian')
                    break
                anc = w['groups'][anc]['parent'] if anc else None
        for g_, a in scoped:
            if g_ and any(c['kind'] == 'imp' and inside(c['group'], g_) for c in w['comps']):
                anc = g_
                while anc is not None:
                    if w['solvers'].get(anc, {'ln': 'runonce'})['ln'].split('_')[0] in ('direct', 'krylov'):
                        out.append('approximated-group-holds-implicit-component')
                        break
                    anc = w['groups'][anc]['parent'] if anc else None
        return list(dict.fromkeys(out))

    @classmethod
    def finding_class(cls, plan, upto=None):
        c = cls.finding_classes(plan, upto)
        return c[0] if c else None

    def signature(self, plan, viol):
        sig = WorldCheck.signature(self, plan, viol)
        upto = viol.get('op_index')
        if viol['inv'] == 'I-12-values':
            cls = self.finding_class(plan, upto)
            if cls:
                sig += ':' + cls
        elif viol['inv'] in ('I-12-partials', 'I-12-colored') and \
                'one-sided-fd-of-implicit-component-on-stale-residuals' in self.finding_classes(plan, upto):
            # the same recorded finding seen on the partials themselves (or as the difference between the
            # garbage of the plain and of the coloured sweep)
            sig = 'I-12-values:one-sided-fd-of-implicit-component-on-stale-residuals'
        elif viol['inv'] == 'I-exception' and 'direct.py:solve' in viol.get('ctx', '') and \
                "no attribute '_lu'" in viol.get('msg', '') and \
                (plan['knobs'].get('approx_totals') or {}).get('method') == 'cs' and \
                plan['world']['solvers'].get('', {}).get('nl') in ('newton', 'broyden') and \
                plan['world']['solvers'].get('', {}).get('ln') in ('direct_csc', 'direct_csr'):
            sig = 'I-12-values:model-level-cs-approximation-over-newton-with-sparse-assembled-direct-solver'
        elif viol['inv'] == 'I-exception' and 'direct.py:_linearize' in viol.get('ctx', '') and \
                ('Singular entry found' in viol.get('msg', '') or 'is not full rank' in viol.get('msg', '')):
            # the same two causes with another symptom: when the sub-jacobians the matrix is wrongly built
            # from were never computed (partials approximated or set in compute_partials) the rows are zero
            # and DirectSolver refuses the matrix instead of returning wrong totals
            cls = [c_ for c_ in self.finding_classes(plan, upto) if c_ in
                   ('approximated-group-under-assembled-jacobian', 'approximated-group-holds-implicit-component')]
            if cls:
                sig = 'I-12-values:' + cls[0]
        return sig

    def gen_ops(self, rng, plan):
        model_level = bool(plan['knobs'].get('approx_totals'))

        def extra(rng_, w):
            # run_linearize on a model that approximates its own totals is not a way a user computes an
            # approximation (Problem.compute_totals is); it also linearizes the root linear solver over
            # sub-jacobians the approximation never refreshed
            if not model_level and rng_.random() < 0.35:
                # linearize at a state that is not converged (an independent was moved, the model not re-run):
                # approximated partials of implicit components then have a non-zero base residual
                # (the residuals are evaluated first: one-sided differences take them as their base point)
                return [gen_set(rng_, w), {'op': 'apply_nonlinear'}, {'op': 'linearize'}, {'op': 'run_model'}]
            return rng_.choice([gen_totals_op(rng_, w) if model_level else {'op': 'linearize'},
                                gen_totals_op(rng_, w)])
        return standard_history(rng, plan['world'], nsteps=(2, 6), extra=extra, fault_p=0.2)

    def nontrivial(self, plan, st, faults, probes):
        return probes.get('approx_bracketed', 0) > 0

    def execute(self, plan, log, st, faults, probes, viol):
        # bracket totals / linearize ops with full-state snapshots (inputs, outputs, residuals)
        self._orig_do = Sim.do
        check = self

        def do(sim, op):
            kind = op['op']
            bracket = kind in ('totals', 'linearize') and sim.p is not None and getattr(sim, 'final', False) \
                and sim.clean
            before = sim.state_bytes(with_resid=True) if bracket else None
            sim._counts_before = dict(sim.rt.counts)
            sim._partials_before = check.stub_partials(sim) if kind == 'linearize' and sim.p is not None else {}
            res, raised, fired = check._orig_do(sim, op)
            if kind in ('totals', 'linearize') and raised is not None and sim.viol and \
                    sim.viol[-1]['inv'] == 'I-converge' and (sim.knobs.get('approx_totals') or
                                                             sim.knobs.get('group_approx')):
                # A solver that gives up inside the sweep of a group- or model-level approximation (the
                # perturbed solves run with the relevance of the requested totals, which can leave part of a
                # cycle unsolved) says so; the property speaks about approximations that were computed.
                sim.viol.pop()
                sim.void = True
                sim.probes.inc('solver_failure_inside_approximation_sweep_void')
            if bracket and raised is None and fired == 0 and not sim.viol:
                after = sim.state_bytes(with_resid=True)
                sim.probes.inc('approx_bracketed')
                if after != before:
                    names = ['inputs', 'outputs', 'residuals']
                    diff = [n for n, x, y in zip(names, before.split(b'|'), after.split(b'|')) if x != y] \
                        if before.count(b'|') == 2 and after.count(b'|') == 2 else ['state']
                    scaled = any(any(k in o for k in ('ref', 'ref0', 'res_ref')) for c in sim.world['comps']
                                 for o in c['outs'])
                    m = sim.p.model
                    if scaled or 'residuals' in diff and sim._iterative():
                        pass
                    sim.V('I-12-side-effect', f"{kind} with approximated derivatives changed the model's {diff} "
                          f"(approx_totals={sim.knobs.get('approx_totals')}, group_approx={sim.knobs.get('group_approx')})",
                          ctx=','.join(diff))
            return res, raised, fired
        Sim.do = do
        try:
            HistoryCheck.execute(self, plan, log, st, faults, probes, viol)
        finally:
            Sim.do = self._orig_do

    @staticmethod
    def stub_partials(sim):
        """{(comp, of, wrt): value} of the sub-jacobians the approximating stubs currently hold."""
        out = {}
        try:
            for c in sim.world['comps']:
                if not c.get('approx'):
                    continue
                path = sim.absn(c['outs'][0]['name']).rsplit('.', 1)[0]
                J = sim.p.model._get_subsystem(path)._jacobian
                if J is None:
                    continue
                for o in c['outs']:
                    for wrt in [i['name'] for i in c['ins']] + ([o['name']] if c['kind'] == 'imp' else []):
                        try:
                            out[(c['name'], o['name'], wrt)] = np.array(J[o['name'], wrt], dtype=float).copy()
                        except Exception:
                            pass
        except Exception:
            pass
        return out

    def check_partials_of_stubs(self, sim, viol, base_current=True):
        """I-12-partials: after run_linearize, the sub-jacobians an approximating component holds equal the
        plan's exact partials at the component's current inputs, within the method's bound (judged at any
        state, converged or not -- a partial derivative does not care)."""
        w = sim.world
        approx_groups = [g_ for g_ in (sim.knobs.get('group_approx') or {}) if g_ in w['groups']]
        for c in w['comps']:
            a = c.get('approx')
            if not a or any(c['group'] == g_ or c['group'].startswith(g_ + '.') for g_ in approx_groups):
                continue
            path = sim.absn(c['outs'][0]['name']).rsplit('.', 1)[0]
            comp = sim.p.model._get_subsystem(path)
            J = comp._jacobian
            meth = 'apply_nonlinear' if c['kind'] == 'imp' else 'compute'
            evals = sim.rt.counts.get((c['name'], meth), 0) - getattr(sim, '_counts_before', {}).get((c['name'], meth), 0)
            if J is None or evals == 0:
                # not linearized by this call (relevance leaves components out that no requested total needs)
                continue
            if not base_current and a['method'] == 'fd' and a['form'] != 'central':
                # one-sided differences take the outputs / residuals the vectors hold as their base point; after
                # a set_val without an evaluation those belong to other inputs (user precondition).  Central
                # differences and complex step have no base point and are judged at any state.
                sim.probes.inc('one_sided_fd_partial_on_unevaluated_state_not_judged')
                continue
            ins = {i['name']: np.array(comp._inputs._abs_get_val(path + '.' + i['name'], flat=True), dtype=float).real.copy()
                   for i in c['ins']}
            if not all(np.all(np.isfinite(v)) for v in ins.values()):
                continue
            mag = 1.0 + max([float(np.abs(v).max()) for v in ins.values()] + [0.0])
            for o in c['outs']:
                mag = max(mag, 1.0 + float(np.abs(np.array(sim.p.get_val(path + '.' + o['name']))).max()))
                # round-off of an evaluation is relative to the size of the terms it sums, not of the result
                t = np.abs(np.array(c['b'][o['name']], dtype=float))
                for i in c['ins']:
                    t = t + np.abs(np.array(c['A'][o['name']][i['name']], dtype=float)) @ np.abs(ins[i['name']])
                if c['kind'] == 'imp':
                    t = t + np.abs(np.array(c['D'], dtype=float)) @ np.abs(np.array(sim.p.get_val(path + '.' + o['name']),
                                                                                  dtype=float).ravel())
                mag = max(mag, 1.0 + float(t.max()))
            used = sim._used_fd_steps(c)
            if a['method'] == 'cs':
                bound = 1e-11 * mag * 8
            else:
                # effective steps: what the plan's step_calc gives at the current values (with OpenMDAO's
                # documented minimum_step at zero), and what the framework holds from its first linearization
                hs = []
                wvals = list(ins.values()) + ([np.abs(np.array(sim.p.get_val(path + '.' + c['outs'][0]['name']))).ravel()]
                                              if c['kind'] == 'imp' else [])
                for x in wvals:
                    x = np.abs(x)
                    sc = a.get('step_calc', 'abs')
                    if sc == 'abs':
                        hs.append(np.array([a['step']]))
                    elif sc in ('rel_avg', 'rel'):
                        hs.append(np.array([max(a['step'] * float(x.sum()) / max(1, len(x)), 1e-12)]))
                    elif sc == 'rel_legacy':
                        hs.append(np.array([max(a['step'] * float(np.linalg.norm(x)), 1e-12)]))
                    else:
                        hs.append(np.maximum(a['step'] * x, 1e-12))
                hs = np.concatenate(hs)
                hmin = min(float(hs.min()), used[0]) if used else float(hs.min())
                hmax = max(float(hs.max()), used[1]) if used else float(hs.max())
                amax = max(float(np.abs(np.array(c['A'][o['name']][i['name']])).max()) for o in c['outs'] for i in c['ins'])
                if c['kind'] == 'imp':
                    amax = max(amax, float(np.abs(np.array(c['D'])).max()))
                bound = 256 * EPSF * mag * (1.0 + amax) * 8 / hmin
                if c.get('quad') and a['form'] != 'central':
                    bound += float(np.abs(c['quad']['coef']).max()) * hmax * 2
                if a['form'] != 'central' and sim._iterative():
                    # one-sided differences take the residual vector as their base point; after an iterative
                    # solve it is the residual of the last iterate the solver looked at, i.e. within the solver's
                    # tolerance of the current state's (observed: 5e-11 left by NLBGS, 2.7e-7 in the partial)
                    sc = 1.0
                    for o in c['outs']:
                        for k_ in ('res_ref', 'ref'):
                            if k_ in o:
                                sc = max(sc, float(np.max(np.abs(o[k_]))))
                    bound += 10.0 * sim.nl_tol()['atol'] * sc / hmin
            for o in c['outs']:
                pairs = [(i['name'], -1.0 if c['kind'] == 'imp' else 1.0, np.array(c['A'][o['name']][i['name']], dtype=float))
                         for i in c['ins']]
                if c['kind'] == 'imp':
                    pairs.append((o['name'], 1.0, np.array(c['D'], dtype=float)))
                for wrt, sign, A in pairs:
                    want = sign * A
                    q = c.get('quad')
                    if q and q['out'] == o['name'] and q['in'] == wrt:
                        want = want.copy()
                        want[:, 0] += 2.0 * np.array(q['coef']) * ins[wrt][0]
                    try:
                        got = np.asarray(J[o['name'], wrt], dtype=float)
                    except Exception:
                        continue
                    got = got.reshape(want.shape) if got.size == want.size else got
                    if not np.any(got) and np.any(want):
                        # relevance leaves partials wrt inputs that no requested total needs unapproximated
                        # (all zero); whether a needed one is missing is judged through the totals
                        sim.probes.inc('approximated_partial_left_zero_not_judged')
                        continue
                    prev = getattr(sim, '_partials_before', {}).get((c['name'], o['name'], wrt))
                    if prev is not None and prev.size == got.size and np.array_equal(prev.ravel(), got.ravel()) and \
                            float(np.abs(got - want).max()) > bound:
                        # not refreshed by this linearization: relevance only re-approximates the partials a
                        # requested total needs (outside compute_totals: that the driver's design variables and
                        # responses need), the others keep the value of an earlier linearization point
                        sim.probes.inc('approximated_partial_not_refreshed_not_judged')
                        continue
                    sim.probes.inc('approximated_partials_compared')
                    if got.shape != want.shape or not np.all(np.isfinite(got)) or \
                            float(np.abs(got - want).max()) > bound + 1e-9 * (1 + float(np.abs(want).max())):
                        viol.append({'inv': 'I-12-partials', 'msg': f"approximated partial d({o['name']})/d({wrt}) of "
                                     f"{c['name']} ({a}) after run_linearize: got {np.asarray(got).tolist()} exact "
                                     f"{want.tolist()} (bound {bound:.3g}; state converged: {sim.clean})"})
                        return False
        return True

    def after_op(self, sims, op, outs, viol, ctx, log):
        if op['op'] == 'linearize' and outs[0][1] is None and outs[0][2] == 0 and not sims[0].knobs.get('approx_totals'):
            if not self.check_partials_of_stubs(sims[0], viol, base_current=sims[0].resid_current):
                return False
        if len(sims) < 2 or op['op'] != 'totals':
            return True
        a, b = sims[0], sims[1]
        (ra, ea, fa), (rb, eb, fb) = outs
        if ra is None or rb is None or not (a.clean and b.clean):
            return True
        bound = 2.0 * a.approx_abs_bound()
        for k2 in ra:
            if relerr(rb[k2], ra[k2], floor=1e-3 + float(np.abs(ra[k2]).max())) > 1e-6 and not (
                    np.shape(rb[k2]) == np.shape(ra[k2]) and np.all(np.isfinite(rb[k2])) and
                    float(np.abs(np.asarray(rb[k2]) - np.asarray(ra[k2])).max()) <= bound * _dscale(a, op, k2)):
                viol.append({'inv': 'I-12-colored', 'msg': f"totals {k2}: uncoloured approximation {ra[k2].tolist()} vs "
                             f"coloured twin {rb[k2].tolist()}"})
                return False
        a.probes.inc('colored_twin_comparisons')
        return True


def _dscale(sim, op, key):
    if not op.get('driver_scaling'):
        return 1.0
    r = next(x for x in sim.world['resps'] if x['name'] == key[0])
    d = next(x for x in sim.world['dvs'] if x['name'] == key[1])
    return abs(sim._voi_scale(r) / sim._voi_scale(d))


CHECKS['C12'] = C12()
