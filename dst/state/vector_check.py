"""C33 -- the framework's own vectors (root and subsystem views of a real, seeded tiny Problem)
under histories of arithmetic / named-access / aliasing / scaling / complex-mode operations,
against flat NumPy reference arrays.

The simulated "schedule" is the operation history over several vectors that alias each other
(root vector, subsystem vectors, named views handed out earlier and written to later); the
fault-like dimensions are the complex-step mode switches in the middle of a history, refused
operations (a wrongly shaped assignment must leave the data untouched) and writes through
stale views.  It is reference-model conformance over op histories; no clock, I/O or thread is
involved (said so in the manifest's level note).
"""
import copy

import numpy as np

from dst.core.driver import Check
from dst.core.util import Log, Counter, reset_process_state, dyadic

KINDS = [('nonlinear', 'output'), ('nonlinear', 'residual'), ('nonlinear', 'input'),
         ('linear', 'output'), ('linear', 'residual'), ('linear', 'input')]
ATTR = {('nonlinear', 'output'): '_outputs', ('nonlinear', 'residual'): '_residuals',
        ('nonlinear', 'input'): '_inputs', ('linear', 'output'): '_doutputs',
        ('linear', 'residual'): '_dresiduals', ('linear', 'input'): '_dinputs'}
UNITS = [None, None, 'm', 'cm', 'degC', 'degK']
COMPAT = {'m': ['m', 'cm'], 'cm': ['cm', 'm'], 'degC': ['degC', 'degK'], 'degK': ['degK', 'degC'], None: [None]}


def gen_layout(rng):
    comps = []
    outs_all = []
    ncomp = rng.randint(1, 3)
    use_group = rng.random() < 0.6
    for k in range(ncomp + 1):
        name = 'ivc' if k == 0 else f'c{k}'
        outs = []
        for j in range(rng.randint(1, 3)):
            shape = rng.choice([[], [1], [2], [3], [2, 2], [2, 3], [1, 2]])
            o = {'name': f'{name}_y{j}', 'shape': shape, 'units': rng.choice(UNITS),
                 'val': dyadic(rng, -4, 4, 2)}
            r = rng.random()
            if r < 0.35:
                o['ref0'] = rng.choice([0.0, 1.0, -2.0])
                o['ref'] = o['ref0'] + rng.choice([2.0, 10.0, 0.5, -4.0])
                if o['ref'] == 0.0:
                    o['ref'] = 3.0        # res_ref defaults to ref: a zero ref is a zero residual scaler
            if rng.random() < 0.3:
                n = int(np.prod(shape)) if shape else 1
                o['res_ref'] = rng.choice([4.0, 0.25, [rng.choice([2.0, 8.0, 0.5]) for _ in range(n)]])
                if isinstance(o['res_ref'], list) and n == 1:
                    o['res_ref'] = o['res_ref'][0]
            outs.append(o)
        ins = []
        if k > 0:
            for j in range(rng.randint(1, 3)):
                src = rng.choice(outs_all)
                ins.append({'name': f'{name}_x{j}', 'shape': src['shape'], 'src': src['name'],
                            'units': rng.choice(COMPAT[src['units']])})
        comps.append({'name': name, 'group': 'g' if (use_group and k > 0 and rng.random() < 0.7) else '',
                      'prom': rng.random() < 0.6, 'outs': outs, 'ins': ins})
        outs_all += outs
    return {'comps': comps, 'gprom': rng.random() < 0.5, 'complex': rng.random() < 0.6}


def gen_ops(rng, layout, n):
    levels = [''] + (['g'] if any(c['group'] == 'g' for c in layout['comps']) else []) + \
        [c['name'] for c in layout['comps']]
    ops = []
    for _ in range(n):
        lev = rng.choice(levels)
        vn, kind = rng.choice(KINDS)
        r = rng.random()
        t = {'lev': lev, 'vn': vn, 'kind': kind}
        if layout['complex'] and rng.random() < 0.06:
            # complex-step cycle motif on one nonlinear vector: enter, write complex data, leave, operate on the
            # real view (what happens to the hidden imaginary parts?), enter again
            kd = rng.choice([k_ for k_ in KINDS if k_[0] == 'nonlinear'])[1]
            tt = {'lev': lev, 'vn': 'nonlinear', 'kind': kd}

            def one(opd):
                opd['seed'] = rng.randint(0, 2 ** 31 - 1)
                ops.append(opd)
            one(dict(tt, op='complex_mode', on=True))
            one(dict(tt, op='set_val', val='array', idx=None))
            one(dict(tt, op='complex_mode', on=False))
            for _k in range(rng.randint(1, 2)):
                if rng.random() < 0.6:
                    one(dict(tt, op='set_val', val=rng.choice(['scalar', 'array']), idx=rng.choice([None, 'slice', 'ints'])))
                else:
                    one(dict(tt, op=rng.choice(['iadd', 'imul']), val=rng.choice(['scalar', 'array']),
                             idx=rng.choice([None, 'slice', 'ints'])))
            one(dict(tt, op='complex_mode', on=True))
            continue
        if r < 0.12:
            op = dict(t, op='set_val', val=rng.choice(['scalar', 'array']), idx=rng.choice([None, None, 'slice', 'ints']))
        elif r < 0.30:
            op = dict(t, op=rng.choice(['iadd', 'isub', 'imul']), val=rng.choice(['scalar', 'array']),
                      idx=rng.choice([None, None, 'slice', 'ints']))
        elif r < 0.42:
            op = dict(t, op=rng.choice(['__iadd__', '__isub__', '__imul__']), arg=rng.choice(['vec', 'array', 'scalar']),
                      other=rng.randrange(3))
        elif r < 0.50:
            op = dict(t, op=rng.choice(['add_scal_vec', 'set_vec']), other=rng.randrange(3), scal=dyadic(rng, -2, 2, 3))
        elif r < 0.58:
            op = dict(t, op=rng.choice(['dot', 'get_norm']), other=rng.randrange(3))
        elif r < 0.70:
            op = dict(t, op='named_set', how=rng.choice(['setitem', 'set_var', 'set_var_flat', 'set_var_idx']),
                      var=rng.random(), name_form=rng.choice(['rel', 'abs']))
        elif r < 0.78:
            op = dict(t, op='view_write', var=rng.random(), stale=rng.random() < 0.5)
        elif r < 0.84:
            op = dict(t, op='asarray_write', copy=rng.random() < 0.4, pos=rng.random())
        elif r < 0.90:
            op = dict(t, op='scale', mode=rng.choice(['fwd', 'rev']) if vn == 'linear' else 'fwd',
                      mid=rng.random() < 0.5)
        elif r < 0.95:
            op = dict(t, op='bad_set', var=rng.random())
        else:
            op = dict(t, op='complex_mode', on=rng.random() < 0.6)
        op['seed'] = rng.randint(0, 2 ** 31 - 1)
        ops.append(op)
    return ops


class C33(Check):
    pid = 'C33'
    level = 'exploration'
    engine = 'statesim'
    rule = ("plans = a seeded variable layout (2-4 components, optional promoted group, scalar/1-D/2-D variables, "
            "ref/ref0/res_ref, unit-converting connections, complex allocation) built as a real Problem, plus a history "
            "of 5-40 operations over its 6 root vectors and the subsystem vectors that alias them: set_val / iadd / isub / "
            "imul (whole, slice, index array), += -= *= (vector, array, scalar), add_scal_vec, set_vec, dot, get_norm, "
            "named set (setitem, set_var plain/flat/indexed, relative and absolute names), writes through live and "
            "stale named views and through asarray() with and without copy, scale_to_norm/scale_to_phys round trips with "
            "an optional operation in scaled space, refused wrongly-shaped assignments, complex-step mode switches; "
            "after every operation every access path (root asarray, subsystem asarray, every named view at both "
            "levels, get_slice) is compared with the flat NumPy reference; distinct = event-log digests; non-trivial = "
            "at least 5 operations were applied and a subsystem-level operation was observed through the root vector")
    assumptions = ["the variable ranges of the ROOT vector are read from Vector.get_range and verified to be a disjoint, "
                   "complete partition with the declared sizes; all other paths are checked against that layout",
                   "arithmetic results are compared bitwise; dot/norm to 8 ulp (BLAS alignment); scale round trips to "
                   "8 ulp of |x|+|adder| (and bitwise when the scaling is the identity)",
                   "scaled values are predicted from ref/ref0/res_ref (inputs: their source's ref/ref0 composed with the unit "
                   "conversion of the connection)",
                   "imaginary parts are compared while a vector is in complex-step mode and at every switch into it: "
                   "real-mode operations on the visible data leave hidden imaginary parts alone, whole-cell writes "
                   "(set_val, set_vec, named assignment) reset them",
                   "dot and get_norm are judged in real mode"]
    real = ['DefaultVector / Vector (root and subsystem instances of a real Problem)', 'System._setup_vectors / _setup_scaling']
    stubs = ['no-op stub components providing the variable layout']

    def budget(self, tier):
        if tier == 'thorough':
            return {'runs': 150000, 'time': 1200.0, 'run_cap': 60.0, 'selftest': 100}
        return {'runs': 6000, 'time': 50.0, 'run_cap': 60.0, 'selftest': 12}

    def gen(self, rng, tier):
        layout = gen_layout(rng)
        return {'layout': layout, 'ops': gen_ops(rng, layout, rng.randint(5, 40 if tier == 'thorough' else 25))}

    # ------------------------------------------------------------------ build
    def _build(self, layout):
        import openmdao.api as om

        class Stub(om.ExplicitComponent):
            def initialize(self):
                self.options.declare('spec', recordable=False)

            def setup(self):
                sp = self.options['spec']
                for i in sp['ins']:
                    self.add_input(i['name'], np.ones(tuple(i['shape'])), units=i['units'])
                for o in sp['outs']:
                    kw = {}
                    for k in ('ref', 'ref0'):
                        if k in o:
                            kw[k] = o[k]
                    if 'res_ref' in o:
                        kw['res_ref'] = np.array(o['res_ref']).reshape(tuple(o['shape'])) \
                            if isinstance(o['res_ref'], list) else o['res_ref']
                    self.add_output(o['name'], np.full(tuple(o['shape']), o['val']), units=o['units'], **kw)

            def compute(self, i, o):
                pass
        p = om.Problem(name='v')
        m = p.model
        g = None
        path = {}
        for c in layout['comps']:
            parent = m
            if c['group'] == 'g':
                if g is None:
                    g = m.add_subsystem('g', om.Group(), promotes=['*'] if layout['gprom'] else None)
                parent = g
            parent.add_subsystem(c['name'], Stub(spec=c), promotes=['*'] if c['prom'] else None)
            path[c['name']] = ('g.' if c['group'] == 'g' else '') + c['name']
        absn = {}
        for c in layout['comps']:
            for v in c['outs'] + c['ins']:
                absn[v['name']] = path[c['name']] + '.' + v['name']
        comp_of = {v['name']: c for c in layout['comps'] for v in c['outs'] + c['ins']}

        def prom(n):
            c = comp_of[n]
            nm = n if c['prom'] else c['name'] + '.' + n
            if c['group'] == 'g' and not layout['gprom']:
                nm = 'g.' + nm
            return nm
        for c in layout['comps']:
            for i in c['ins']:
                m.connect(prom(i['src']), prom(i['name']))
        p.setup(force_alloc_complex=layout['complex'])
        p.final_setup()
        return p, path, absn

    # ------------------------------------------------------------------ run
    def run(self, plan, keep=False):
        reset_process_state(plan.get('run_seed', 0))
        log = Log(keep)
        st, faults, probes = Counter(), Counter(), Counter()
        viol = []
        layout = plan['layout']
        import io
        import contextlib
        with contextlib.redirect_stdout(io.StringIO()), contextlib.redirect_stderr(io.StringIO()):
            p, path, absn = self._build(layout)
        m = p.model
        var = {v['name']: v for c in layout['comps'] for v in c['outs'] + c['ins']}
        comp_of = {v['name']: c for c in layout['comps'] for v in c['outs'] + c['ins']}

        def system(lev):
            if lev == '':
                return m
            return m._get_subsystem(path.get(lev, lev))

        def vec(lev, vn, kind):
            return getattr(system(lev), ATTR[(vn, kind)])

        # ---- reference: one flat complex array per root vector + layout read from get_range
        ref = {}
        rng_of = {}
        cmode = {}
        for vn, kind in KINDS:
            v = vec('', vn, kind)
            names = [n for n in var if (n in [i['name'] for c in layout['comps'] for i in c['ins']]) == (kind == 'input')]
            ranges = {}
            for n in names:
                ranges[n] = tuple(int(x) for x in v.get_range(absn[n]))
            rng_of[(vn, kind)] = ranges
            size = len(v)
            cover = np.zeros(size, dtype=int)
            for n, (a, b) in ranges.items():
                want = int(np.prod(var[n]['shape'])) if var[n]['shape'] else 1
                if b - a != want:
                    viol.append({'inv': 'I-33-layout', 'msg': f"{vn} {kind}: range of {n} has {b - a} entries, declared size {want}"})
                cover[a:b] += 1
            if np.any(cover != 1):
                viol.append({'inv': 'I-33-layout', 'msg': f"{vn} {kind}: variable ranges are not a disjoint complete partition "
                             f"of the {size} entries: {ranges}"})
            ref[(vn, kind)] = np.array(v._data, dtype=complex).copy() if v._data.size else np.zeros(0, dtype=complex)
            cmode[(vn, kind)] = False
        if viol:
            return self._result(plan, viol, log, st, faults, probes, False, keep)

        def level_names(lev, kind):
            isin = kind == 'input'
            if lev == '':
                cs = layout['comps']
            elif lev == 'g':
                cs = [c for c in layout['comps'] if c['group'] == 'g']
            else:
                cs = [c for c in layout['comps'] if c['name'] == lev]
            return [v['name'] for c in cs for v in (c['ins'] if isin else c['outs'])]

        def level_slice(lev, vn, kind):
            ns = level_names(lev, kind)
            if not ns:
                return 0, 0
            rs = [rng_of[(vn, kind)][n] for n in ns]
            a, b = min(r[0] for r in rs), max(r[1] for r in rs)
            return a, b

        def visible(arr, key):
            return arr if cmode[key] else arr.real

        UCONV = {('m', 'cm'): (0.0, 100.0), ('cm', 'm'): (0.0, 0.01), ('degC', 'degK'): (273.15, 1.0),
                 ('degK', 'degC'): (-273.15, 1.0)}

        def scaling(vn, kind, lev):
            """Scaling predicted from the plan: scale_to_norm('fwd') is (x - adder) / div, scale_to_norm('rev') (linear
            vectors) is x * mul.  Inputs carry their source's ref/ref0 composed with the unit conversion."""
            a, b = level_slice(lev, vn, kind)
            div, ad, mul = np.ones(b - a), np.zeros(b - a), np.ones(b - a)
            for n in level_names(lev, kind):
                r0, r1 = rng_of[(vn, kind)][n]
                o = var[n]
                sl = slice(r0 - a, r1 - a)
                if kind == 'input':
                    src = var[o['src']]
                    a0, a1 = src.get('ref0', 0.0), src.get('ref', 1.0) - src.get('ref0', 0.0)
                    off, fac = UCONV.get((src['units'], o['units']), (0.0, 1.0))
                    div[sl] = a1 * fac
                    ad[sl] = (a0 + off) * fac
                    mul[sl] = fac / a1
                    continue
                ref_, ref0 = o.get('ref', 1.0), o.get('ref0', 0.0)
                if kind == 'output':
                    div[sl] = mul[sl] = ref_ - ref0
                    ad[sl] = ref0
                else:
                    rr = o.get('res_ref', ref_ if 'ref' in o else 1.0)
                    div[sl] = mul[sl] = np.array(rr, dtype=float).ravel() if isinstance(rr, list) else rr
            if vn == 'linear':
                ad = None
            return div, ad, mul

        def lookup_name(lev, n, form):
            """A name by which variable n can be addressed in the vector of level lev."""
            if form == 'abs' and lev == '':
                return absn[n]
            c = comp_of[n]
            if lev == c['name']:
                return n
            if lev == 'g':
                return n if c['prom'] else c['name'] + '.' + n
            # root
            if c['group'] == 'g':
                if not layout['gprom']:
                    return 'g.' + (n if c['prom'] else c['name'] + '.' + n)
                return n if c['prom'] else c['name'] + '.' + n
            return n if c['prom'] else c['name'] + '.' + n

        def observe(where):
            """Every access path of every vector against the reference."""
            for vn, kind in KINDS:
                key = (vn, kind)
                R = ref[key]
                root = vec('', vn, kind)
                got = root.asarray()
                want = visible(R, key)
                if got.shape != want.shape or not np.array_equal(got, want, equal_nan=True):
                    bad = int(np.argmax(~np.isclose(got, want, rtol=0, atol=0, equal_nan=True))) if got.shape == want.shape else -1
                    viol.append({'inv': 'I-33-data', 'msg': f"after {where}: root {vn} {kind} vector differs from the NumPy "
                                 f"reference at flat index {bad}: {got[bad] if bad >= 0 else got.shape!r} vs "
                                 f"{want[bad] if bad >= 0 else want.shape!r}", 'ctx': where.split('#')[0]})
                    return False
                for lev in levels:
                    a, b = level_slice(lev, vn, kind)
                    v = vec(lev, vn, kind)
                    if lev != '':
                        g2 = v.asarray()
                        if g2.shape != (b - a,) or not np.array_equal(g2, want[a:b], equal_nan=True):
                            viol.append({'inv': 'I-33-alias', 'msg': f"after {where}: {vn} {kind} vector of subsystem {lev!r} "
                                         f"does not show the root vector's entries [{a}:{b}]", 'ctx': where.split('#')[0]})
                            return False
                    for n in level_names(lev, kind):
                        r0, r1 = rng_of[key][n]
                        shp = tuple(var[n]['shape']) or (1,)
                        for form in (('rel', 'abs') if lev == '' else ('rel',)):
                            try:
                                val = v[lookup_name(lev, n, form)]
                            except KeyError:
                                if vn == 'linear':
                                    continue          # linear vectors outside a matvec context may hide names
                                raise
                            val = np.asarray(val)
                            if val.shape != shp or not np.array_equal(val.ravel(), want[r0:r1], equal_nan=True):
                                viol.append({'inv': 'I-33-named', 'msg': f"after {where}: {vn} {kind}[{lookup_name(lev, n, form)!r}] at level "
                                             f"{lev!r} = {val.tolist()} (shape {val.shape}), reference slice [{r0}:{r1}] = "
                                             f"{want[r0:r1].tolist()} (shape {shp})", 'ctx': where.split('#')[0]})
                                return False
                if len(want) and not np.array_equal(root.get_slice(slice(0, len(want), 2)), want[0::2], equal_nan=True):
                    viol.append({'inv': 'I-33-named', 'msg': f"after {where}: get_slice differs from the reference"})
                    return False
            return True

        levels = [''] + (['g'] if any(c['group'] == 'g' for c in layout['comps']) else []) + [c['name'] for c in layout['comps']]
        if not observe('setup'):
            return self._result(plan, viol, log, st, faults, probes, False, keep)

        stale = {}
        sub_seen = False
        applied = 0
        for k, op in enumerate(plan['ops']):
            r = np.random.RandomState(op['seed'])
            vn, kind, lev = op['vn'], op['kind'], op['lev']
            if lev not in levels:
                continue
            key = (vn, kind)
            a, b = level_slice(lev, vn, kind)
            n = b - a
            if n == 0:
                continue
            v = vec(lev, vn, kind)
            R = ref[key]
            cm = cmode[key]
            where = f"{op['op']}#{k}@{lev or 'root'}:{vn}-{kind}"

            def rnd(size=None):
                x = np.round(r.uniform(-4, 4, size) * 8) / 8
                if cm:
                    x = x + 1j * np.round(r.uniform(-1, 1, size) * 8) / 8
                return x

            def tgt():
                """Writable reference window of this level in the visible (real or complex) representation."""
                return (R if cm else R.real)[a:b]

            def index(kind_):
                if kind_ is None:
                    return slice(None), slice(None)
                if kind_ == 'slice':
                    s0 = int(r.randint(0, n))
                    s = slice(s0, int(r.randint(s0, n + 1)), int(r.randint(1, 3)))
                    return s, s
                ii = np.unique(r.randint(0, n, size=int(r.randint(1, n + 1))))
                return ii, ii
            name = op['op']
            try:
                if name == 'set_val':
                    vi, ri = index(op['idx'])
                    cnt = len(np.arange(n)[ri])
                    val = rnd() if op['val'] == 'scalar' or cnt == 0 else rnd(cnt)
                    v.set_val(val, vi) if op['idx'] is not None else v.set_val(val)
                    # documented: set_val writes the whole storage cell (a hidden imaginary part is reset)
                    R[a:b][ri] = val
                elif name in ('iadd', 'isub', 'imul'):
                    vi, ri = index(op['idx'])
                    cnt = len(np.arange(n)[ri])
                    val = rnd() if op['val'] == 'scalar' or cnt == 0 else rnd(cnt)
                    getattr(v, name)(val, vi) if op['idx'] is not None else getattr(v, name)(val)
                    w = tgt()
                    if name == 'iadd':
                        w[ri] += val
                    elif name == 'isub':
                        w[ri] -= val
                    else:
                        w[ri] *= val
                elif name in ('__iadd__', '__isub__', '__imul__', 'add_scal_vec', 'set_vec', 'dot'):
                    mates = [kk for kk in KINDS if (kk[1] == 'input') == (kind == 'input') and kk != key]
                    ok = mates[op['other'] % len(mates)]
                    if cmode[ok] != cm:
                        probes.inc('binary_op_between_modes_skipped')
                        continue
                    ov = vec(lev, ok[0], ok[1])
                    oa, ob = level_slice(lev, ok[0], ok[1])
                    O = visible(ref[ok], ok)[oa:ob].copy()
                    w = tgt()
                    if name == 'add_scal_vec':
                        v.add_scal_vec(op['scal'], ov)
                        w += op['scal'] * O
                    elif name == 'set_vec':
                        v.set_vec(ov)
                        R[a:b] = O          # set_val semantics
                    elif name == 'dot':
                        if cm:
                            continue
                        got = v.dot(ov)
                        want = np.dot(w, O)
                        # round-off of a sum is relative to the size of its terms, not of a result they cancel to
                        if not np.isclose(got, want, rtol=8 * np.finfo(float).eps * max(1, n),
                                          atol=8 * np.finfo(float).eps * max(1, n) * float(np.dot(np.abs(w), np.abs(O))) + 1e-300):
                            viol.append({'inv': 'I-33-reduce', 'msg': f"{where}: dot = {got!r}, NumPy {want!r}", 'ctx': 'dot'})
                            break
                    else:
                        arg = op['arg']
                        if arg == 'vec':
                            x, rx = ov, O
                        elif arg == 'array':
                            rx = rnd(n)
                            x = rx.copy()
                        else:
                            rx = x = rnd()
                        if name == '__iadd__':
                            v += x
                            w += rx
                        elif name == '__isub__':
                            v -= x
                            w -= rx
                        else:
                            v *= x
                            w *= rx
                elif name == 'get_norm':
                    if cm:
                        continue
                    got = v.get_norm()
                    want = np.linalg.norm(tgt())
                    if not np.isclose(got, want, rtol=8 * np.finfo(float).eps * max(1, n), atol=1e-300):
                        viol.append({'inv': 'I-33-reduce', 'msg': f"{where}: get_norm = {got!r}, NumPy {want!r}", 'ctx': 'norm'})
                        break
                elif name in ('named_set', 'view_write', 'bad_set'):
                    ns = level_names(lev, kind)
                    nm = ns[int(op['var'] * len(ns)) % len(ns)]
                    r0, r1 = rng_of[key][nm]
                    shp = tuple(var[nm]['shape']) or (1,)
                    lname = lookup_name(lev, nm, op.get('name_form', 'rel'))
                    if vn == 'linear' and lname not in v:
                        continue
                    wv = (R if cm else R.real)[r0:r1]
                    if name == 'named_set':
                        how = op['how']
                        if how == 'setitem':
                            val = rnd(shp) if r.rand() < 0.7 else rnd()
                            v[lname] = val
                            # set_var writes the storage cell of the view (complex storage: imaginary part too)
                            R[r0:r1] = np.broadcast_to(val, shp).ravel()
                        elif how == 'set_var':
                            val = rnd(shp)
                            v.set_var(lname, val)
                            R[r0:r1] = val.ravel()
                        elif how == 'set_var_flat':
                            val = rnd(r1 - r0)
                            v.set_var(lname, val, flat=True)
                            R[r0:r1] = val
                        else:
                            i0 = int(r.randint(0, shp[0]))
                            val = rnd(shp[1:]) if len(shp) > 1 else rnd()
                            v.set_var(lname, val, idxs=i0)
                            R[r0:r1].reshape(shp)[i0] = val
                    elif name == 'view_write':
                        sk = (lev, vn, kind, nm, cm)
                        olds = sorted(kk for kk in stale if kk[1:3] == (vn, kind) and kk[4] == cm)
                        if op['stale'] and olds:
                            # a view handed out earlier (possibly by another level's vector of the same storage)
                            sk = olds[int(op['var'] * len(olds)) % len(olds)]
                            view = stale[sk]
                            nm = sk[3]
                            r0, r1 = rng_of[key][nm]
                            shp = tuple(var[nm]['shape']) or (1,)
                            wv = (R if cm else R.real)[r0:r1]
                            probes.inc('write_through_stale_view')
                        else:
                            view = v[lname]
                            stale[sk] = view
                        if not isinstance(view, np.ndarray):
                            continue
                        val = rnd(shp)
                        view[...] = val
                        wv[:] = val.ravel()
                    else:
                        before = R.copy()
                        bad = rnd(tuple(x + 1 for x in shp) + (2,))
                        try:
                            v.set_var(lname, bad)
                            probes.inc('wrong_shape_accepted')
                            viol.append({'inv': 'I-33-refused', 'msg': f"{where}: set_var({lname!r}) accepted a value of shape "
                                         f"{bad.shape} for a variable of shape {shp}", 'ctx': 'accepted'})
                            break
                        except (ValueError, IndexError, TypeError):
                            faults.inc('refused_wrong_shape_assignment')
                elif name == 'asarray_write':
                    arr = v.asarray(copy=op['copy'])
                    pos = int(op['pos'] * n) % n
                    val = rnd()
                    arr[pos] = val
                    if not op['copy']:
                        tgt()[pos] = val
                    else:
                        probes.inc('write_to_copy_must_not_show')
                elif name == 'scale':
                    if lev != '':
                        lev = ''
                        v = vec('', vn, kind)
                        a, b = level_slice('', vn, kind)
                        n = b - a
                    if v._scaling is None:
                        # the framework only scales vectors of models that declare scaling
                        probes.inc('model_without_scaling_scale_op_skipped')
                        continue
                    div, a_, mul = scaling(vn, kind, '')
                    w = tgt()
                    x0 = w.copy()
                    mode = op['mode']
                    v.scale_to_norm(mode)
                    got = v.asarray().copy()
                    eps = np.finfo(float).eps
                    if vn == 'nonlinear':
                        want = (x0 - a_) / div
                        tol = 8 * eps * (np.abs(want) + np.abs(a_ / div) + np.abs(x0 / div)) + 1e-300
                    else:
                        want = x0 / div if mode == 'fwd' else x0 * mul
                        tol = 8 * eps * np.abs(want) + 1e-300
                    if np.any(np.abs(got - want) > tol):
                        jj = int(np.argmax(np.abs(got - want) - tol))
                        viol.append({'inv': 'I-33-scale', 'msg': f"{where}: scale_to_norm({mode}) entry {jj}: {got[jj]!r}, predicted "
                                     f"{want[jj]!r} from ref/ref0/res_ref/units (phys {x0[jj]!r})", 'ctx': f'{vn}-{kind}-{mode}'})
                        break
                    d = None
                    if op['mid']:
                        d = rnd(n)
                        v.iadd(d)
                        probes.inc('operation_in_scaled_space')
                    v.scale_to_phys(mode)
                    back = v.asarray().copy()
                    back_fac = div if (vn == 'nonlinear' or mode == 'fwd') else 1.0 / mul
                    exp = x0 if d is None else x0 + d * back_fac
                    adder = np.abs(a_) if a_ is not None else 0.0
                    tol = 16 * eps * (np.abs(exp) + np.abs(x0) + adder + (np.abs(d * back_fac) if d is not None else 0)) + 1e-300
                    if d is None and np.all(div == 1.0) and np.all(mul == 1.0) and (a_ is None or np.all(a_ == 0.0)):
                        tol = 0 * tol
                    if np.any(np.abs(back - exp) > tol) or np.any(np.isnan(back) != np.isnan(exp)):
                        jj = int(np.nanargmax(np.abs(back - exp) - tol))
                        viol.append({'inv': 'I-33-roundtrip', 'msg': f"{where}: scale_to_norm/scale_to_phys({mode}) entry {jj}: "
                                     f"{x0[jj]!r} came back as {back[jj]!r} (expected {exp[jj]!r})", 'ctx': f'{vn}-{kind}-{mode}'})
                        break
                    # the round trip is allowed ulp drift: resynchronise the reference to the vector
                    w[:] = back
                    probes.inc('scale_roundtrips')
                elif name == 'complex_mode':
                    if not layout['complex'] or vn != 'nonlinear':
                        continue
                    root = vec('', vn, kind)
                    if not np.iscomplexobj(root._data):
                        continue
                    on = bool(op['on'])
                    for lv in levels:
                        vv = vec(lv, vn, kind)
                        vv.set_complex_step_mode(on)
                    if on and not cmode[key]:
                        # what real-mode operations do to the hidden imaginary parts follows from the same NumPy
                        # semantics: operations on the (real) visible data leave them alone, whole-cell writes
                        # (set_val / set_vec / named assignment) reset them -- so they are compared, not re-read
                        if not np.array_equal(R.imag, root._data.imag):
                            jj = int(np.nanargmax(np.abs(R.imag - root._data.imag)))
                            viol.append({'inv': 'I-33-hidden-imag', 'msg': f"{where}: switching complex-step mode on "
                                         f"exposes imaginary part {root._data.imag[jj]!r} at flat entry {jj}, the "
                                         f"operation history gives {R.imag[jj]!r}", 'ctx': f'{vn}-{kind}'})
                            break
                    cmode[key] = on
                    stale = {kk: vv for kk, vv in stale.items() if kk[1:3] != key}
                    faults.inc('complex_mode_switch')
                else:
                    raise AssertionError(name)
            except Exception as e:      # noqa
                import traceback
                import re
                tb = traceback.extract_tb(e.__traceback__)
                if not any('/repo/' in f.filename for f in tb):
                    raise
                viol.append({'inv': 'I-33-exception', 'msg': f"{where}: {type(e).__name__}: {str(e)[:200]} "
                             f"(at {tb[-1].filename.split('/')[-1]}:{tb[-1].lineno})",
                             'ctx': name + ':' + type(e).__name__})
                break
            applied += 1
            st.inc('ops')
            st.inc('op:' + name)
            if lev != '':
                sub_seen = True
            log.ev('op', k, name, lev, vn, kind, visible(R, key))
            if not observe(where):
                break
        nontriv = not viol and applied >= 5 and sub_seen
        return self._result(plan, viol, log, st, faults, probes, nontriv, keep)

    def _result(self, plan, viol, log, st, faults, probes, nontriv, keep):
        lay = plan['layout']
        res = {'viol': viol, 'digest': log.digest(), 'stats': st, 'faults': faults, 'probes': probes,
               'shape': f"{len(lay['comps'])}c-{'g' if any(c['group'] for c in lay['comps']) else 'f'}-"
                        f"{'C' if lay['complex'] else 'R'}-{len(plan['ops']) // 10}",
               'nontrivial': nontriv, 'sim_time': 0.0}
        if keep:
            res['events'] = log.events
        return res

    def candidates(self, plan):
        ops = plan['ops']
        n = len(ops)
        size = max(1, n // 2)
        while size >= 1:
            for i in range(0, n, size):
                c = copy.deepcopy(plan)
                c['ops'] = ops[:i] + ops[i + size:]
                if c['ops']:
                    yield c
            size //= 2
        lay = plan['layout']
        if lay['complex'] and not any(o['op'] == 'complex_mode' for o in ops):
            c = copy.deepcopy(plan)
            c['layout']['complex'] = False
            yield c
        for ci, comp in enumerate(lay['comps']):
            for oi, o in enumerate(comp['outs']):
                for k in ('ref', 'res_ref', 'units'):
                    if o.get(k) is not None and (k != 'units'):
                        c = copy.deepcopy(plan)
                        oo = c['layout']['comps'][ci]['outs'][oi]
                        oo.pop(k)
                        if k == 'ref':
                            oo.pop('ref0', None)
                        yield c

    def signature(self, plan, viol):
        return viol['inv'] + (':' + viol['ctx'] if viol.get('ctx') else '')


CHECK = C33()
