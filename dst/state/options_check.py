"""C27 -- OptionsDictionary under assignment / nested temporary() / exception-exit
histories, against a dict + frame-stack reference model.

The simulated "schedule" is the sequence of user-script steps; the "faults" are
exceptions (ordinary, KeyboardInterrupt, GeneratorExit, SystemExit) raised inside `with
opts.temporary(...)` bodies at seeded body steps, and rejected values half-way through a
temporary()'s kwargs.
"""
import copy

from dst.core.driver import Check
from dst.core.shrink import drop_from_list
from dst.core.util import Log, Counter, reset_process_state

TYPES = {'int': int, 'float': float, 'str': str, 'bool': bool, 'list': list,
         'number': (int, float)}

# named, idempotent set_functions and check_valid predicates (plan-serialisable)
SETF = {
    'abs': lambda meta, v: abs(v) if isinstance(v, (int, float)) and not isinstance(v, bool) else v,
    'lower': lambda meta, v: v.lower() if isinstance(v, str) else v,
    'clip10': lambda meta, v: (type(v)(max(-10, min(10, v))) if isinstance(v, (int, float)) and not isinstance(v, bool) else v),
}


def _cv_even(name, value):
    if isinstance(value, int) and value % 2:
        raise ValueError(f"{name}: odd")


def _cv_short(name, value):
    if isinstance(value, (str, list)) and len(value) > 2:
        raise ValueError(f"{name}: too long")


def _cv_notnone(name, value):
    if value is None:
        raise ValueError(f"{name}: None refused by check_valid")


CHECKV = {'even': _cv_even, 'short': _cv_short, 'notnone': _cv_notnone}
FAULTS = ['Exception', 'KeyboardInterrupt', 'GeneratorExit', 'SystemExit', 'ValueError']


class SimFault(Exception):
    pass


def _make_exc(kind):
    if kind == 'KeyboardInterrupt':
        return KeyboardInterrupt('sim')
    if kind == 'GeneratorExit':
        return GeneratorExit('sim')
    if kind == 'SystemExit':
        return SystemExit(3)
    if kind == 'ValueError':
        return ValueError('sim')
    return SimFault('sim')


# --------------------------------------------------------------------------- reference
class RefOptions:
    """Independent statement of the documented option semantics."""

    def __init__(self, read_only):
        self.read_only = read_only
        self.decl = {}
        self.val = {}       # name -> value (only if set / defaulted)

    def declare(self, d):
        self.decl[d['name']] = d
        if d.get('default') is not None:
            self.val[d['name']] = d['default']['v']
        else:
            self.val.pop(d['name'], None)

    def target(self, name):
        d = self.decl.get(name)
        if d is None:
            return None
        if d.get('alias_of'):
            return self.decl.get(d['alias_of'])
        return d

    def accepts(self, name, value):
        if name not in self.decl or self.read_only:
            return False
        d = self.target(name)
        if d is None:
            return False
        if not (value is None and d['allow_none']):
            if d['mode'] == 'values':
                if value not in d['values']:
                    return False
            elif d['mode'] == 'listvalues':
                if not isinstance(value, list):
                    return False
                if any(x not in d['values'] for x in value):
                    return False
            elif d['mode'] == 'types':
                if not isinstance(value, TYPES[d['types']]):
                    return False
            for bound, bad in ((d.get('upper'), lambda v, b: v > b), (d.get('lower'), lambda v, b: v < b)):
                if bound is not None:
                    try:
                        if bad(value, bound):
                            return False
                    except TypeError:
                        return False
        if d.get('check_valid'):
            try:
                CHECKV[d['check_valid']](d['name'], value)
            except ValueError:
                return False
        return True

    def stored(self, name, value):
        d = self.target(name)
        if d.get('set_function'):
            return SETF[d['set_function']](None, value)
        return value

    def assign(self, name, value):
        if not self.accepts(name, value):
            return False
        d = self.target(name)
        self.val[d['name']] = self.stored(name, value)
        return True

    def get(self, name):
        d = self.target(name)
        if d is None or d['name'] not in self.val:
            return ('unset',)
        return ('val', self.val[d['name']])

    def snapshot(self):
        return {n: self.get(n) for n in self.decl}


# --------------------------------------------------------------------------- generator
def _cands(rng, d):
    """Candidate values drawn to hit and to miss the declaration."""
    pool = [0, 1, 2, 3, -4, 7, 12, -15, 2.5, -0.5, 1e3, 'a', 'B', 'abc', None, True, False,
            [], ['a'], ['a', 'zz'], [1, 2, 3]]
    if d['mode'] in ('values', 'listvalues'):
        pool = pool + list(d['values']) * 2
        if d['mode'] == 'listvalues':
            vs = d['values']
            pool = [rng.sample(vs, rng.randint(0, len(vs))) for _ in range(4)] + [[vs[0], 'nope'], 5, None, []]
    v = rng.choice(pool)
    if d['mode'] == 'types' and d['types'] == 'bool' and isinstance(v, (int, float)) and not isinstance(v, bool) \
            and v in (0, 1):
        v = 7   # 1 == True under equality-based `values` membership: stated exclusion
    if d['mode'] == 'values' and isinstance(v, (int, float, bool)):
        # avoid 1/True/1.0 equality puns inside `values`
        if any((v == x and type(v) is not type(x)) for x in d['values'] if not isinstance(x, (str, list, type(None)))):
            v = 'pun'
    return v


def _gen_decl(rng, name, others):
    mode = rng.choice(['values', 'types', 'types', 'any', 'listvalues'])
    d = {'name': name, 'mode': mode, 'values': None, 'types': None, 'lower': None, 'upper': None,
         'allow_none': rng.random() < 0.3, 'check_valid': None, 'set_function': None, 'default': None,
         'alias_of': None}
    if mode == 'values':
        d['values'] = rng.choice([[2, 3, 5], ['a', 'b', 'c'], [0.5, 2.5], ['x', 4, None]])
    elif mode == 'listvalues':
        d['values'] = rng.choice([['a', 'b', 'c'], ['desvars', 'nl_cons', 'objs']])
    elif mode == 'types':
        d['types'] = rng.choice(['int', 'float', 'str', 'bool', 'list', 'number'])
        if d['types'] in ('int', 'float', 'number') and rng.random() < 0.6:
            lo = rng.choice([None, -5, 0, 1])
            hi = rng.choice([None, 3, 10, 100])
            d['lower'], d['upper'] = lo, hi
        if d['types'] in ('int', 'number') and rng.random() < 0.3:
            d['check_valid'] = 'even'
        if d['types'] in ('str', 'list') and rng.random() < 0.4:
            d['check_valid'] = 'short'
        if d['types'] in ('int', 'float', 'number') and rng.random() < 0.3 and d['lower'] is None \
                and d['upper'] is None and not d['check_valid']:
            # a stored value must itself satisfy the declaration (restores re-validate it)
            d['set_function'] = rng.choice(['abs', 'clip10'])
        if d['types'] == 'str' and rng.random() < 0.3:
            d['set_function'] = 'lower'
    else:
        if rng.random() < 0.3:
            d['check_valid'] = rng.choice(['even', 'short', 'notnone'])
    if d['allow_none'] and rng.random() < 0.2 and not d['check_valid']:
        d['check_valid'] = 'notnone'
    if others and rng.random() < 0.15:
        tgt = rng.choice(others)
        if not tgt.get('alias_of'):
            d = {'name': name, 'mode': 'any', 'values': None, 'types': None, 'lower': None, 'upper': None,
                 'allow_none': False, 'check_valid': None, 'set_function': None, 'default': None,
                 'alias_of': tgt['name']}
            return d
    # default: find an accepted candidate (or none => required option)
    if rng.random() < 0.8:
        ref = RefOptions(False)
        ref.decl[name] = d
        for _ in range(30):
            v = _cands(rng, d)
            if ref.accepts(name, v) and (d['set_function'] is None or SETF[d['set_function']](None, v) == v):
                d['default'] = {'v': v}
                break
    return d


def _gen_ops(rng, decls, depth, n, fault_rate):
    ops = []
    names = [d['name'] for d in decls] + ['undeclared']
    by = {d['name']: d for d in decls}

    def cand(nm):
        d = by.get(nm)
        if d is None:
            return rng.choice([1, 'a', None])
        if d.get('alias_of'):
            d = by[d['alias_of']]
        return _cands(rng, d)

    for _ in range(n):
        r = rng.random()
        if r < 0.35:
            nm = rng.choice(names)
            ops.append(['set', nm, cand(nm)])
        elif r < 0.45:
            ks = rng.sample(names, min(len(names), rng.randint(1, 3)))
            ops.append([rng.choice(['setm', 'update']), [[k, cand(k)] for k in ks]])
        elif r < 0.55:
            ops.append(['get', rng.choice(names)])
        elif depth < 3:
            ks = rng.sample(names[:-1] if rng.random() < 0.9 else names, min(len(names) - 1, rng.randint(1, 3)))
            body = _gen_ops(rng, decls, depth + 1, rng.randint(0, 4), fault_rate)
            exit_kind = rng.choice(FAULTS) if rng.random() < fault_rate else 'normal'
            ops.append(['temp', [[k, cand(k)] for k in ks], body, exit_kind, rng.random() < 0.6])
        else:
            ops.append(['get', rng.choice(names)])
    return ops


class C27(Check):
    pid = 'C27'
    level = 'exploration'
    engine = 'statesim'
    rule = ("plans = seeded option declarations (values/types/bounds/allow_none/check_valid/set_function/"
            "alias/default/read-only) + histories of set/update/get/nested temporary() with exception exits; "
            "distinct = distinct event-log digests; non-trivial = at least one temporary() context exited "
            "(normally or by injected exception) or at least one assignment was rejected")
    assumptions = [
        "set_function hooks in plans are idempotent (restoring a value passes it through the hook again by design)",
        "ints 0/1 are not offered to bool/values options (equality-based `values` membership cannot tell 1 from True)",
        "strings/tuples are not offered to types=list+values options",
        "with-statements exit LIFO (real `with`), exceptions are real raises inside the body",
    ]
    real = ['openmdao.utils.options_dictionary.OptionsDictionary (all methods)', 'contextlib']
    stubs = ['user script (plan)', 'check_valid / set_function callbacks (named, plan-chosen)']

    def budget(self, tier):
        if tier == 'thorough':
            return {'runs': 400000, 'time': 540.0, 'run_cap': 30.0, 'selftest': 200}
        return {'runs': 12000, 'time': 40.0, 'run_cap': 30.0, 'selftest': 16}

    def gen(self, rng, tier):
        nd = rng.randint(1, 5)
        decls = []
        for k in range(nd):
            decls.append(_gen_decl(rng, f"o{k}", decls))
        fault_rate = rng.choice([0.0, 0.3, 0.6])
        return {'read_only': rng.random() < 0.05, 'decls': decls,
                'ops': _gen_ops(rng, decls, 0, rng.randint(1, 10), fault_rate)}

    # ---------------------------------------------------------------- executor
    def run(self, plan, keep=False):
        from openmdao.utils.options_dictionary import OptionsDictionary
        reset_process_state(plan.get('run_seed', 0))
        log = Log(keep)
        st, faults, probes = Counter(), Counter(), Counter()
        viol = []
        opts = OptionsDictionary(parent_name='sim')
        ref = RefOptions(plan['read_only'])
        for d in plan['decls']:
            kw = {}
            if d.get('alias_of'):
                kw['deprecation'] = ('old name', d['alias_of'])
            else:
                if d['mode'] == 'values':
                    kw['values'] = list(d['values'])
                elif d['mode'] == 'listvalues':
                    kw['values'] = list(d['values'])
                    kw['types'] = list
                elif d['mode'] == 'types':
                    kw['types'] = TYPES[d['types']]
                for k in ('lower', 'upper'):
                    if d.get(k) is not None:
                        kw[k] = d[k]
                if d['allow_none']:
                    kw['allow_none'] = True
                if d.get('check_valid'):
                    kw['check_valid'] = CHECKV[d['check_valid']]
                if d.get('set_function'):
                    kw['set_function'] = SETF[d['set_function']]
                if d.get('default') is not None:
                    kw['default'] = copy.deepcopy(d['default']['v'])
            opts.declare(d['name'], **kw)
            ref.declare(d)
        if plan['read_only']:
            opts._read_only = True

        def observe():
            out = {}
            for n in ref.decl:
                try:
                    out[n] = ('val', opts[n])
                except BaseException as e:  # noqa
                    out[n] = ('unset',) if isinstance(e, RuntimeError) else ('err', type(e).__name__)
            return out

        def same(a, b):
            return a == b and type(a[-1]) is type(b[-1])

        def invariant(where):
            got, want = observe(), ref.snapshot()
            for n in want:
                if not same(got[n], want[n]):
                    viol.append({'inv': where, 'msg': f"option {n}: real={got[n]!r} model={want[n]!r}", 'opt': n})
                    return False
            log.ev('state', {k: repr(v) for k, v in got.items()})
            return True

        def assign_seq(pairs, call):
            """Sequential assignment semantics: stops at the first rejected pair."""
            exp_ok = True
            for k, v in pairs:
                if not ref.assign(k, v):
                    exp_ok = False
                    break
            try:
                call()
                ok = True
            except (KeyError, ValueError, TypeError, RuntimeError) as e:
                ok = False
                log.ev('rejected', type(e).__name__)
                st.inc('rejected')
            if ok != exp_ok:
                viol.append({'inv': 'I27-accept', 'msg': f"assignment {pairs!r}: real "
                             f"{'accepted' if ok else 'rejected'}, declaration says "
                             f"{'accept' if exp_ok else 'reject'}"})
            return ok

        def exec_ops(ops, depth):
            for op in ops:
                st.inc('ops')
                kind = op[0]
                log.ev('op', kind, depth)
                if kind == 'set':
                    assign_seq([(op[1], copy.deepcopy(op[2]))], lambda: opts.__setitem__(op[1], copy.deepcopy(op[2])))
                elif kind == 'setm':
                    pairs = [(k, copy.deepcopy(v)) for k, v in op[1]]
                    assign_seq(pairs, lambda: opts.set(**dict(pairs)))
                elif kind == 'update':
                    pairs = [(k, copy.deepcopy(v)) for k, v in op[1]]
                    assign_seq(pairs, lambda: opts.update(dict(pairs)))
                elif kind == 'get':
                    pass
                elif kind == 'temp':
                    _, kws, body, exit_kind, catch = op
                    pairs = [(k, copy.deepcopy(v)) for k, v in kws]
                    before = copy.deepcopy(ref.val)
                    # reference: entry succeeds iff every option is readable and every value accepted
                    entry_ok = True
                    for k, v in pairs:
                        if ref.get(k)[0] != 'val' or not ref.assign(k, v):
                            entry_ok = False
                            break
                    if not entry_ok:
                        ref.val = copy.deepcopy(before)
                    entered = False
                    raised = None
                    try:
                        with opts.temporary(**dict(pairs)):
                            entered = True
                            st.inc('temp_entered')
                            if not invariant('I27-temp-entry'):
                                return
                            exec_ops(body, depth + 1)
                            if viol:
                                return
                            if exit_kind != 'normal':
                                faults.inc('exit_' + exit_kind)
                                log.ev('fault', exit_kind, depth)
                                raise _make_exc(exit_kind)
                    except BaseException as e:  # noqa
                        raised = e
                        log.ev('raised', type(e).__name__, entered)
                    if viol:
                        return
                    if entered != entry_ok:
                        viol.append({'inv': 'I27-accept', 'msg': f"temporary({kws!r}) entry: real "
                                     f"{'entered' if entered else 'refused'}, model says "
                                     f"{'enter' if entry_ok else 'refuse'}"})
                        return
                    if entered:
                        # exit (either way) restores the options named in kwargs to entry values
                        for k, _v in pairs:
                            t = ref.target(k)['name']
                            if t in before:
                                ref.val[t] = before[t]
                            else:
                                ref.val.pop(t, None)
                        st.inc('temp_exit_exc' if raised is not None else 'temp_exit_normal')
                        if depth >= 1:
                            probes.inc('nested_temp_exit')
                        inv = 'I27-restore-exc' if raised is not None else 'I27-restore-normal'
                    else:
                        st.inc('temp_entry_refused')
                        if len(pairs) > 1:
                            probes.inc('entry_refused_multi_kw')
                        inv = 'I27-restore-entry-refused'
                    if not invariant(inv):
                        return
                    if raised is not None and entered and not catch and depth > 0:
                        probes.inc('unwound_two_levels')
                        raise raised    # the enclosing `with` body exits by this exception too
                    continue
                if viol:
                    return
                if not invariant('I27-state'):
                    return

        try:
            exec_ops(plan['ops'], 0)
        except BaseException as e:  # noqa
            if not isinstance(e, (SimFault, KeyboardInterrupt, GeneratorExit, SystemExit, ValueError)):
                raise
            log.ev('toplevel-caught', type(e).__name__)
        if not viol:
            invariant('I27-final')
        nontrivial = (st.get('temp_exit_exc', 0) + st.get('temp_exit_normal', 0) + st.get('rejected', 0)) > 0
        shape = f"d{len(plan['decls'])}-t{st.get('temp_entered', 0)}-x{st.get('temp_exit_exc', 0)}-r{min(st.get('rejected', 0), 3)}"
        res = {'viol': viol, 'digest': log.digest(), 'stats': st, 'faults': faults, 'probes': probes,
               'shape': shape, 'nontrivial': nontrivial, 'sim_time': 0.0}
        if keep:
            res['events'] = log.events
        return res

    # ---------------------------------------------------------------- shrinking
    def candidates(self, plan):
        yield from drop_from_list(plan, ['ops'])
        # flatten / simplify temp ops
        for i, op in enumerate(plan['ops']):
            if op[0] == 'temp':
                if op[2]:
                    c = copy.deepcopy(plan)
                    c['ops'][i][2] = []
                    yield c
                    for j in range(len(op[2])):
                        c = copy.deepcopy(plan)
                        del c['ops'][i][2][j]
                        yield c
                    c = copy.deepcopy(plan)   # hoist body
                    c['ops'][i:i + 1] = copy.deepcopy(op[2])
                    yield c
                if len(op[1]) > 1:
                    for j in range(len(op[1])):
                        c = copy.deepcopy(plan)
                        del c['ops'][i][1][j]
                        yield c
                if op[3] not in ('normal', 'Exception'):
                    c = copy.deepcopy(plan)
                    c['ops'][i][3] = 'Exception'
                    yield c
            elif op[0] in ('setm', 'update') and len(op[1]) > 1:
                for j in range(len(op[1])):
                    c = copy.deepcopy(plan)
                    del c['ops'][i][1][j]
                    yield c
        used = set()

        def walk(ops):
            for op in ops:
                if op[0] in ('set', 'get'):
                    used.add(op[1])
                elif op[0] in ('setm', 'update'):
                    used.update(k for k, _ in op[1])
                elif op[0] == 'temp':
                    used.update(k for k, _ in op[1])
                    walk(op[2])
        walk(plan['ops'])
        aliased = {d['alias_of'] for d in plan['decls'] if d.get('alias_of')}
        for i, d in enumerate(plan['decls']):
            if d['name'] not in used and d['name'] not in aliased:
                c = copy.deepcopy(plan)
                del c['decls'][i]
                yield c
        for i, d in enumerate(plan['decls']):
            for k in ('check_valid', 'set_function', 'lower', 'upper'):
                if d.get(k) is not None:
                    c = copy.deepcopy(plan)
                    c['decls'][i][k] = None
                    yield c
        if plan['read_only']:
            c = copy.deepcopy(plan)
            c['read_only'] = False
            yield c

    def signature(self, plan, viol):
        return viol['inv']


CHECK = C27()
